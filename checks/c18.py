"""C18 -- the comparison and listing tools report the true differences and counts.

Exhaustive exploration: base databases (examples/somersault.pdx + three generated ones; thorough adds
examples/somersault_modified.pdx) x EVERY single edit of the alphabet (delete / add / rename every DIAG-SERVICE;
byte position / bit length / coded value / semantic / data type / linked DOP of every PARAM of every request and
response) x both roles of the edited input (new side, old side).  The edits are made in the ODX XML
(odxmodel.emit_compare); both inputs are real loads (load_pdx_file for the PDX bases, Database.add_odx_file +
refresh for everything written to the scratch directory).

Oracle (odxmodel.refcompare, by ODX object identity, no odxtools):
  * comparing a database / layer with itself (same object and independently loaded copy) reports nothing;
  * an edit is reported as exactly its kind (new / deleted / renamed / changed parameters) for exactly the services
    the edited element belongs to, in every layer the service is applicable to, and nothing else;
  * the rows of print_dl_metrics (rich Table object intercepted at the module's rich_print; also through
    odxtools.cli.list.print_summary) equal the numbers of applicable services, DATA-OBJECT-PROPs and COMPARAM-REFs,
    for every base database and every edited database, for every ORDER in which the layers are listed (database
    order, reverse, all ordered pairs; base databases: also single layers and all permutations of up to 5 layers);
    the generated database `shared` has its ECU-SHARED-DATA layer in a second container after layers with comparams;
  * additionally every ordered pair of different layers of a base database (`compare -v A B`) is judged by the same
    identity-based difference.
  * every case runs in a forked child of a process that never compared anything (so no verdict depends on earlier
    cases and every violation replays in isolation); history dependence is explored explicitly: all ordered pairs
    (X, Y) of 7 comparisons among the files a / a2 (same content) / b (rename) / c (semantic edit) are executed as
    "X then Y" in one process, with fresh and with shared Comparison objects; Y's answer must equal the answer of Y
    done first in a fresh process and the reference's; the case records the SEQUENCE and replays it as such;
  * CLI phase: `odxtools compare F [-db ...] [-v ...]` and `odxtools list ...` are run in-process through
    odxtools.cli.main.start_cli() (sys.argv patched, stdout captured; the result objects handed to
    Comparison.print_database_changes / print_dl_changes, the section headers and the overview tables are intercepted):
    the sections must be "first file compared to the k-th -db file" in order, the content of every section must be
    the identity-based difference of exactly the two inputs its header names (same content -> nothing, edited copy ->
    exactly its edit), and every overview table must show the numbers of the database / layers it is printed for.
The Comparison object is set up the way odxtools.cli.compare.run() does it.  Where the reference cannot decide by the
property statement alone (two services of a layer with the same constant request prefix, one short name denoting
different services) the case is counted as out of envelope instead of judged (0 such cases among the edits).
"""
from __future__ import annotations

import contextlib
import io
import itertools
import os
import re
import shutil
import zipfile
from collections import Counter
from typing import Any, Dict, List, Optional, Tuple

from mcx.core import Ctx, Part, digest, pmap, repo_root
from odxmodel import emit, emit_compare as ec, refcompare as ref

PROPERTY = "C18"
LEVEL = "exploration"

QUICK_DBS = sorted(ec.PREFIX_DBS) + ["override", "names", "single", "flat", "tree", "shared", "somersault"]
THOROUGH_DBS = QUICK_DBS + ["somersault_modified"]
CATS = ["new", "deleted", "renamed", "changed"]
KEYWORDS = {"byte-position": ["byte"], "byte-position-remove": ["byte"], "byte-position-add": ["byte"], "bit-length": ["bit"], "coded-value": ["value"], "semantic": ["semantic"],
            "data-type": ["type", "dop"], "linked-dop": ["dop"],
            "dop-bit-length": ["bit", "dop"], "dop-data-type": ["type", "dop"], "dop-compu-category": ["dop"]}
PARAM_RE = re.compile(r"(request|positive response|negative response) parameter '([^']*)'")

_counter = itertools.count()
_BASE: Dict[str, Any] = {}


# ---------------------------------------------------------------------------------------------
# loading (always through the real loaders)
# ---------------------------------------------------------------------------------------------
def load_files(files: Dict[str, str], aux: Optional[Dict[str, bytes]] = None) -> Any:
    from odxtools.database import Database
    d = os.path.join(emit.scratch_dir(), f"c18_{os.getpid()}_{next(_counter)}")
    os.makedirs(d)
    try:
        db = Database()
        for fn in sorted(files):
            p = os.path.join(d, os.path.basename(fn))
            with open(p, "w", encoding="utf-8") as f:
                f.write(files[fn])
            db.add_odx_file(p)
        for n, data in sorted((aux or {}).items()):
            if os.path.basename(n).lower() != "index.xml":
                db.add_auxiliary_file(n, io.BytesIO(data))
        db.refresh()
        return db
    finally:
        shutil.rmtree(d, ignore_errors=True)


def load_as_pdx(files: Dict[str, str], aux: Optional[Dict[str, bytes]] = None) -> Any:
    import odxtools
    d = os.path.join(emit.scratch_dir(), f"c18_{os.getpid()}_{next(_counter)}")
    os.makedirs(d)
    try:
        p = os.path.join(d, "db.pdx")
        with zipfile.ZipFile(p, "w") as z:
            for fn in sorted(files):
                z.writestr(fn, files[fn])
            for n, data in sorted((aux or {}).items()):
                z.writestr(n, data)
        return odxtools.load_pdx_file(p)
    finally:
        shutil.rmtree(d, ignore_errors=True)


def base(db_id: str) -> Tuple[Dict[str, str], Any, Dict[str, bytes]]:
    """(ODX documents, database loaded the primary way, auxiliary PDX members) -- cached per process"""
    if db_id not in _BASE:
        import odxtools
        files = ec.base_files(db_id, repo_root())
        if db_id in ec.GENERATED:
            db = load_files(files)
        else:
            db = odxtools.load_pdx_file(os.path.join(repo_root(), "examples", db_id + ".pdx"))
        _BASE[db_id] = (files, db, ec.base_aux(db_id, repo_root()))
    return _BASE[db_id]


def independent_copy(db_id: str, files: Dict[str, str], aux: Dict[str, bytes]) -> Any:
    """a second load through the OTHER loader"""
    return load_as_pdx(files, aux) if db_id in ec.GENERATED else load_files(files, aux)


# ---------------------------------------------------------------------------------------------
# observation
# ---------------------------------------------------------------------------------------------
def observe_layer(sd: Dict[str, Any]) -> Dict[str, Any]:
    ren = sd["changed_name_of_service"]
    chg = sd["changed_parameters_of_service"]
    labels: List[List[str]] = []
    for info in (chg[2] if len(chg) > 2 else []):
        ls: List[str] = []
        for item in info:
            if isinstance(item, dict) and "Property" in item:
                ls.extend(str(x) for x in item["Property"])
        labels.append(ls)
    return {"new": [s.short_name for s in sd["new_services"]],
            "deleted": [s.short_name for s in sd["deleted_services"]],
            "renamed": [[s.short_name, str(o)] for s, o in zip(ren[0], ren[1])],
            "changed": [s.short_name for s in chg[0]],
            "chg_text": [str(x) for x in chg[1]], "chg_labels": labels}


def new_task(dbs: List[Any]) -> Any:
    """as odxtools.cli.compare.run() sets it up for `compare <pdx> -db <pdx>`"""
    from odxtools.cli.compare import Comparison
    task = Comparison()
    task.param_detailed = True
    task.databases = list(dbs)
    task.diagnostic_layer_names = {dl.short_name for db in task.databases for dl in db.diag_layers}
    task.db_indicator_1 = 0
    task.db_indicator_2 = 1
    return task


def run_compare(db_new: Any, db_old: Any) -> Tuple[Dict[str, Any], Dict[str, Any]]:
    """-> (observation through compare_databases, observation through compare_diagnostic_layers per layer pair)"""
    task = new_task([db_new, db_old])
    res = task.compare_databases(db_new, db_old)
    via_db = {"new_layers": sorted(dl.short_name for dl in res["new_diagnostic_layers"]),
              "deleted_layers": sorted(dl.short_name for dl in res["deleted_diagnostic_layers"]),
              "layers": {k: observe_layer(v) for k, v in res.items() if isinstance(v, dict)}}
    via_dl: Dict[str, Any] = {"new_layers": via_db["new_layers"], "deleted_layers": via_db["deleted_layers"], "layers": {}}
    task2 = new_task([db_new, db_old])
    for dl1 in db_new.diag_layers:
        for dl2 in db_old.diag_layers:
            if dl1.short_name == dl2.short_name:
                via_dl["layers"][dl1.short_name] = observe_layer(task2.compare_diagnostic_layers(dl1, dl2))
    return via_db, via_dl


def capture_via_list_tool(db: Any) -> Optional[Dict[str, Dict[str, str]]]:
    """the same overview as printed by `odxtools list` (odxtools.cli.list.print_summary); None if unavailable"""
    try:
        from odxtools.cli import _print_utils as pu
        from odxtools.cli import list as list_tool
        got: List[Any] = []
        orig = pu.rich_print
        pu.rich_print = lambda *a, **k: got.extend(a)  # type: ignore[assignment]
        try:
            with contextlib.redirect_stdout(io.StringIO()):
                list_tool.print_summary(db)
        finally:
            pu.rich_print = orig
    except (ImportError, AttributeError, TypeError):
        return None
    tables = [t for t in got if hasattr(t, "columns") and hasattr(t, "add_row")]
    if len(tables) != 1:
        return None
    cols = [(str(c.header), [str(x) for x in c.cells]) for c in tables[0].columns]
    n = len(cols[0][1]) if cols else 0
    return index_rows([{h: cells[i] for h, cells in cols} for i in range(n)])


def capture_metrics(db: Any, force_text: bool = False, order: Optional[List[str]] = None) -> Tuple[Optional[Dict[str, Dict[str, str]]], str]:
    """rows of print_dl_metrics as {layer name: {column header: cell}}.  Primary: intercept the rich Table object the
    function hands to its module-level rich_print; fallback: render to a wide text console and split the rows."""
    from odxtools.cli import _print_utils as pu
    layers = list(db.diag_layers)
    if order is not None:
        by_name = {dl.short_name: dl for dl in layers}
        layers = [by_name[n] for n in order]
    got: List[Any] = []
    if hasattr(pu, "rich_print") and not force_text:
        orig = pu.rich_print
        pu.rich_print = lambda *a, **k: got.extend(a)  # type: ignore[assignment]
        try:
            with contextlib.redirect_stdout(io.StringIO()):
                pu.print_dl_metrics(layers)
        finally:
            pu.rich_print = orig
    tables = [t for t in got if hasattr(t, "columns") and hasattr(t, "add_row")]
    if len(tables) == 1:
        cols = [(str(c.header), [str(x) for x in c.cells]) for c in tables[0].columns]
        n = len(cols[0][1]) if cols else 0
        rows = [{h: cells[i] for h, cells in cols} for i in range(n)]
        return index_rows(rows), "table-object"
    # fallback: text
    import rich
    from rich.console import Console
    buf = io.StringIO()
    con = Console(file=buf, width=400, force_terminal=False, color_system=None)
    old = rich.get_console()
    rich._console = con  # type: ignore[attr-defined]
    try:
        pu.print_dl_metrics(layers)
    finally:
        rich._console = old  # type: ignore[attr-defined]
    lines = [l for l in buf.getvalue().splitlines() if any(ch in l for ch in "│┃|")]
    split = [[c.strip() for c in re.split(r"[│┃|]", l)[1:-1]] for l in lines]
    split = [s for s in split if s]
    if len(split) < 1:
        return None, "unavailable"
    head, body = split[0], split[1:]
    return index_rows([dict(zip(head, r)) for r in body if len(r) == len(head)]), "text"


def index_rows(rows: List[Dict[str, str]]) -> Dict[str, Dict[str, str]]:
    out: Dict[str, Dict[str, str]] = {}
    for r in rows:
        name = next((v for h, v in r.items() if h.strip().lower() == "name"), None)
        if name is not None:
            out[name] = r
    return out


def cell(row: Dict[str, str], *words: str) -> Optional[str]:
    for h, v in row.items():
        if all(w in h.lower() for w in words):
            return v
    return None


# ---------------------------------------------------------------------------------------------
# judging
# ---------------------------------------------------------------------------------------------
def judge(kind: str, edit: Optional[str], exp: Dict[str, Any], obs: Dict[str, Any], via: str, unequal_objects: bool = False) -> List[Tuple[str, str]]:
    """kind: key component naming the change under test (self/..., new, deleted, rename, <param edit>).
    unequal_objects: the two inputs hold the service as objects that are not value-equal (container renamed).  Also
    then a service that keeps its short name MUST NOT be listed as new or renamed, even if its constant request prefix
    was edited (key C18/param-edit/request-prefix-changed/also-reported-new; repaired in /repo by 911fd1b)."""
    out: List[Tuple[str, str]] = []
    is_self = kind.startswith("self")
    if sorted(obs["new_layers"]) != exp["new_layers"] or sorted(obs["deleted_layers"]) != exp["deleted_layers"]:
        out.append((f"C18/{kind}/diagnostic-layers-misreported",
                    f"[{via}] layers new {obs['new_layers']} deleted {obs['deleted_layers']}, expected {exp['new_layers']} / {exp['deleted_layers']}"))
    for lname, e in exp["layers"].items():
        o = obs["layers"].get(lname)
        if o is None:
            out.append((f"C18/{kind}/layer-not-compared", f"[{via}] layer {lname} missing in the result"))
            continue
        touched = set(e["new"]) | set(e["deleted"]) | set(e["changed"]) | {x for p in e["renamed"] for x in p}
        for cat in CATS:
            E = Counter(tuple(x) if isinstance(x, list) else x for x in e[cat])
            O = Counter(tuple(x) if isinstance(x, list) else x for x in o[cat])
            for item in sorted((E - O).elements(), key=repr):
                key = f"C18/{kind}/not-reported"
                if cat == "deleted" and e["n_new"] == 0:
                    key = "C18/deleted/new-layer-empty/not-reported"
                elif kind == "layer-pair":
                    key = f"C18/layer-pair/{cat}-not-reported"
                out.append((key,
                            f"[{via}] layer {lname}: expected {cat} {item!r}; reported new={o['new']} deleted={o['deleted']} "
                            f"renamed={o['renamed']} changed={o['changed']}"))
            for item in sorted((O - E).elements(), key=repr):
                names = set(item) if isinstance(item, tuple) else {item}
                if is_self:
                    key = f"C18/{kind}/reports-{cat}"
                elif names & touched:
                    if cat == "new" and edit in ec.PARAM_EDITS and names & set(e["prefix_changed"]):
                        key = "C18/param-edit/request-prefix-changed/also-reported-new"
                    else:
                        key = f"C18/{kind}/also-reported-{cat}"
                else:
                    key = f"C18/{kind}/other-service-reported-{cat}"
                out.append((key, f"[{via}] layer {lname}: {cat} {item!r} reported but not expected; expected new={e['new']} "
                                 f"deleted={e['deleted']} renamed={e['renamed']} changed={e['changed']}"))
        # parameter level detail of correctly classified changes
        for name in e["changed"]:
            if o["changed"].count(name) != 1 or e["params"].get(name) is None:
                continue
            i = o["changed"].index(name)
            listed = sorted([k, p] for k, p in PARAM_RE.findall(o["chg_text"][i])) if i < len(o["chg_text"]) else []
            want = sorted(e["params"][name])
            if not listed and i < len(o["chg_text"]) and o["chg_text"][i].strip():
                continue  # the wording of the parameter list is not the one this check can read: not judged
            if listed != want:
                out.append((f"C18/{kind}/wrong-parameters-listed", f"[{via}] layer {lname} service {name}: listed {listed}, edited {want}"))
            elif edit in KEYWORDS and i < len(o["chg_labels"]):
                labs = [l.lower() for l in o["chg_labels"][i]]
                if not any(w in l for l in labs for w in KEYWORDS[edit]):
                    out.append((f"C18/{kind}/attribute-not-listed",
                                f"[{via}] layer {lname} service {name}: properties listed {o['chg_labels'][i]} do not name the {edit}"))
    return out


def layer_orders(names: List[str], full: bool) -> List[List[str]]:
    """the orders in which the layers are handed to print_dl_metrics: the database order first, its reverse, every
    ordered pair; for a base database (`full`) also every single layer and ALL permutations of up to 5 layers"""
    orders: List[List[str]] = [list(names)]
    if len(names) > 1:
        orders.append(list(reversed(names)))
    orders.extend([a, b] for a in names for b in names if a != b)
    if full:
        orders.extend([a] for a in names)
        if len(names) <= 5:
            orders.extend(list(p) for p in itertools.permutations(names))
    seen, out = set(), []
    for o in orders:
        if tuple(o) not in seen:
            seen.add(tuple(o))
            out.append(o)
    return out


def judge_metrics(files: Dict[str, str], db: Any, full: bool = False) -> Tuple[List[Tuple[str, str]], int, str]:
    """The overview table is requested for every order of layer_orders(); each row has to show the numbers of ITS layer
    whatever rows precede it.  A wrong cell that is right in the database order gets the key suffix /order-dependent."""
    want = ref.metrics(files)
    names = [dl.short_name for dl in db.diag_layers]
    out: List[Tuple[str, str]] = []
    nrows = 0
    how = "unavailable"
    bad_in_db_order = set()
    for oi, order in enumerate(layer_orders(names, full)):
        rows, how = capture_metrics(db, order=order)
        if rows is None:
            return [("C18/metrics/table-unavailable", "print_dl_metrics produced no table")], nrows, how
        sfx = "" if oi == 0 else "/order-dependent"
        tag = "" if oi == 0 else f"[layers listed as {order}] "
        if sorted(rows) != sorted(n for n in order if n in want) and oi > 0:
            out.append(("C18/metrics/rows-differ-from-request", f"{tag}rows {sorted(rows)}"))
        for lname in (order if oi > 0 else list(want)):
            w = want.get(lname)
            if w is None:
                continue
            r = rows.get(lname)
            if r is None:
                out.append(("C18/metrics/row-missing", f"{tag}no row for layer {lname}; rows {sorted(rows)}"))
                continue
            nrows += 1
            s, d, c = cell(r, "service"), cell(r, "dop"), cell(r, "communication")
            lo, hi = w["comparams"]
            for col, ok, msg in (
                ("services", s == str(w["services"]), f"table says {s} services, the XML has {w['services']} applicable DIAG-SERVICEs"),
                ("dops", d == str(w["dops"]), f"table says {d} DOPs, the XML has {w['dops']} applicable DATA-OBJECT-PROPs ({w['own_dops']} local)"),
                ("comparams", c is not None and c.isdigit() and lo <= int(c) <= hi,
                 f"table says {c} communication parameters, the XML has {lo}{'' if hi == lo else '..' + str(hi)} applicable "
                 f"COMPARAM-REFs ({w['own_comparams']} local)")):
                if ok:
                    continue
                if oi == 0:
                    bad_in_db_order.add((col, lname))
                    out.append((f"C18/metrics/{col}", f"layer {lname} ({w['type']}): {msg}"))
                else:
                    k = f"C18/metrics/{col}" + ("" if (col, lname) in bad_in_db_order else sfx)
                    out.append((k, f"{tag}layer {lname} ({w['type']}): {msg}"))
    return out, nrows, how


# ---------------------------------------------------------------------------------------------
# units
# ---------------------------------------------------------------------------------------------
def change_kind(edit: str, role: str) -> str:
    if edit == "add":
        return "new" if role == "edited-new" else "deleted"
    if edit == "delete":
        return "deleted" if role == "edited-new" else "new"
    return edit


def run_case(case: Dict[str, Any], part: Optional[Part] = None) -> List[Tuple[str, str]]:
    """One unit: {"db", "edit": None|kind, "target": [...], "deep": bool}.  Returns all (key, detail) found."""
    out: List[Tuple[str, str]] = []
    cnt = part.count if part is not None else (lambda *a, **k: None)
    if case.get("cli"):
        return run_cli_case(case, part)
    if case.get("seq"):
        return run_seq_case(case, part)
    db_id, edit, target = case["db"], case.get("edit"), case.get("target")
    files, db, aux = base(db_id)

    def compare_and_judge(kind: str, ed: Optional[str], fn_new: Dict[str, str], fn_old: Dict[str, str], d_new: Any, d_old: Any,
                          unequal: bool = False) -> Optional[Dict[str, Any]]:
        exp = ref.expected_changes(fn_new, fn_old)
        # the constant prefixes decide only between new / deleted / renamed; a service that keeps its short name is
        # compared by its parameters whatever the prefixes are
        if exp["ambiguous"] and not kind.startswith("self") and ed not in ec.PARAM_EDITS + ec.DOP_EDITS:
            cnt("out_of_envelope_ambiguous_prefix")
            return None
        try:
            via_db, via_dl = run_compare(d_new, d_old)
        except Exception as e:  # the tool has to produce a report
            out.append((f"C18/{kind}/raises/{type(e).__name__}", f"comparison raised {type(e).__name__}: {e}"))
            return exp
        tagx = " [container renamed]" if unequal else ""
        out.extend(judge(kind, ed, exp, via_db, "compare_databases" + tagx, unequal))
        out.extend(judge(kind, ed, exp, via_dl, "compare_diagnostic_layers" + tagx, unequal))
        cnt("evaluations", 2 * len(exp["layers"]))
        cnt("layer_comparisons", 2 * len(exp["layers"]))
        return exp

    def layer_pairs(fs: Dict[str, str], d: Any) -> None:
        """two different layers of ONE database (`compare -v A B`), incl. a variant that overrides an inherited service"""
        pairs = ref.expected_layer_pairs(fs)
        task = new_task([d])
        layers = {dl.short_name: dl for dl in d.diag_layers}
        for pname, pe in pairs.items():
            if pe["ambiguous"]:
                cnt("layer_pairs_ambiguous")
                continue
            a, b = pname.split("/")
            try:
                o = observe_layer(task.compare_diagnostic_layers(layers[a], layers[b]))
            except Exception as e:
                out.append((f"C18/layer-pair/raises/{type(e).__name__}", f"{pname}: {type(e).__name__}: {e}"))
                continue
            out.extend(judge("layer-pair", None, {"new_layers": [], "deleted_layers": [], "layers": {pname: pe["diff"]}},
                             {"new_layers": [], "deleted_layers": [], "layers": {pname: o}}, "compare_diagnostic_layers"))
            cnt("evaluations")
            cnt("layer_pairs")
            if any(pe["diff"]["changed"]):
                cnt("layer_pairs_expecting_changed_parameters")
            if part is not None and any(pe["diff"][c] for c in CATS):
                part.add("nontrivial", digest((db_id, edit, target, "pair", pname)))

    if edit is None:
        compare_and_judge("self/same-object", None, files, files, db, db)
        copy = independent_copy(db_id, files, aux)
        compare_and_judge("self/independent-copy", None, files, files, db, copy)
        compare_and_judge("self/independent-copy", None, files, files, copy, db)
        layer_pairs(files, db)
        if not ec.dop_targets(files):
            # no DOP in the database: a copy whose containers are renamed is the same database for the comparison
            rfiles = ec.rename_containers(files)
            rdb = load_files(rfiles, aux)
            compare_and_judge("self/renamed-container", None, rfiles, files, rdb, db)
            compare_and_judge("self/renamed-container", None, files, rfiles, db, rdb)
        probs, n, how = judge_metrics(files, db, full=True)
        out.extend(probs)
        cnt("evaluations", n)
        cnt("metric_rows", n)
        via_list = capture_via_list_tool(db)
        if via_list is not None:
            cnt("list_tool_tables")
            direct, _ = capture_metrics(db)
            if direct != via_list:
                out.append(("C18/metrics/list-tool-differs", f"`list` overview {via_list} differs from print_dl_metrics {direct}"))
        if part is not None:
            part.add("metrics_capture", how)
            part.add("nontrivial", digest((db_id, "metrics", sorted(ref.metrics(files).items()))))
        return out

    try:
        efiles, info = ec.apply_edit(files, edit, target)
    except ec.NotApplicable as e:
        cnt("edits_not_applicable")
        if part is not None:
            part.add("not_applicable_reasons", f"{edit}: {e}")
        return out
    cnt("edits_applied")
    cnt("applied_" + edit)
    try:
        edb = load_files(efiles, aux) if db_id in ec.GENERATED else load_as_pdx(efiles, aux)
    except Exception as e:
        # the edited document has to be a loadable database; if it is not, the EDIT is wrong, not the tool
        raise RuntimeError(f"edited database does not load ({db_id} {edit} {target}): {type(e).__name__}: {e}")
    for role in ("edited-new", "edited-old"):
        kind = change_kind(edit, role)
        if role == "edited-new":
            exp = compare_and_judge(kind, edit, efiles, files, edb, db)
        else:
            exp = compare_and_judge(kind, edit, files, efiles, db, edb)
        if exp is not None and part is not None:
            nonempty = any(l[c] for l in exp["layers"].values() for c in CATS)
            part.count("cases_expecting_a_report" if nonempty else "cases_expecting_silence")
            if nonempty:
                part.add("nontrivial", digest((db_id, edit, target, role)))
            part.add("expected_kinds", kind)
    compare_and_judge("self/same-object", None, efiles, efiles, edb, edb)
    if case.get("deep") or db_id != "somersault":
        # (quick: the PDX example has no overriding services; its layer pairs are judged on the base database and, in
        # the thorough tier, on every edited copy)
        layer_pairs(efiles, edb)
    if not ec.dop_targets(files):
        # the edited database in a renamed container against the base: still exactly the edit
        rfiles = ec.rename_containers(efiles)
        rdb = load_files(rfiles, aux)
        cnt("renamed_container_comparisons", 2)
        compare_and_judge(change_kind(edit, "edited-new"), edit, rfiles, files, rdb, db, True)
        compare_and_judge(change_kind(edit, "edited-old"), edit, files, rfiles, db, rdb, True)
    if case.get("deep"):
        compare_and_judge("self/independent-copy", None, efiles, efiles, edb, independent_copy(db_id, efiles, aux))
    probs, n, how = judge_metrics(efiles, edb)
    out.extend(probs)
    cnt("evaluations", n)
    cnt("metric_rows", n)
    if part is not None and part.counts.get("edits_applied", 0) % 97 == 1:
        part.sample({"db": db_id, "edit": edit, "target": target, "info": info}, limit=3)
    return out


# ---------------------------------------------------------------------------------------------
# CLI phase: `odxtools compare ...` and `odxtools list ...` through odxtools.cli.main.start_cli()
# ---------------------------------------------------------------------------------------------
def judge_rows(rows: Dict[str, Dict[str, str]], want: Dict[str, Dict[str, Any]], names: List[str], tag: str, keybase: str) -> List[Tuple[str, str]]:
    out: List[Tuple[str, str]] = []
    if sorted(rows) != sorted(names):
        out.append((f"{keybase}/overview-rows", f"{tag}overview lists {sorted(rows)}, requested {sorted(names)}"))
    for n in names:
        r, w = rows.get(n), want.get(n)
        if r is None or w is None:
            continue
        s, d, c = cell(r, "service"), cell(r, "dop"), cell(r, "communication")
        lo, hi = w["comparams"]
        if s != str(w["services"]) or d != str(w["dops"]) or c is None or not c.isdigit() or not lo <= int(c) <= hi:
            out.append((f"{keybase}/overview-numbers", f"{tag}layer {n}: overview says services={s} DOPs={d} comparams={c}; the XML of that "
                                                       f"database has {w['services']} / {w['dops']} / {lo}{'' if lo == hi else '..' + str(hi)}"))
    return out


def table_rows(t: Any) -> Dict[str, Dict[str, str]]:
    cols = [(str(c.header), [str(x) for x in c.cells]) for c in t.columns]
    n = len(cols[0][1]) if cols else 0
    return index_rows([{h: cells[i] for h, cells in cols} for i in range(n)])


def drive_cli(argv: List[str]) -> List[Tuple[str, Any]]:
    """Run `odxtools <argv>` in-process exactly as the console script does (odxtools.cli.main.start_cli with sys.argv
    patched, stdout captured) and return the event stream: ("text", str) for everything the compare tool prints
    itself, ("table", rows) for every overview table, ("db_changes", observation) / ("dl_changes", observation) for
    the result objects the tool hands to Comparison.print_database_changes / print_dl_changes."""
    import sys
    import odxtools.exceptions as ox
    from odxtools.cli import _print_utils as pu
    from odxtools.cli import compare as cmp
    from odxtools.cli import main as cli_main
    events: List[Tuple[str, Any]] = []
    depth = {"db": 0}
    orig = {"pu": pu.rich_print, "cmp": cmp.rich_print, "pdc": cmp.Comparison.print_database_changes,
            "pdl": cmp.Comparison.print_dl_changes}

    def rec_pu(*a: Any, **k: Any) -> None:
        for x in a:
            if hasattr(x, "columns") and hasattr(x, "add_row") and any("number of" in str(c.header).lower() for c in x.columns):
                events.append(("table", table_rows(x)))

    def rec_cmp(*a: Any, **k: Any) -> None:
        if depth["db"] == 0:
            for x in a:
                if isinstance(x, str):
                    events.append(("text", x))

    def pdc(self: Any, changes: Dict[str, Any]) -> None:
        events.append(("db_changes", {"new_layers": sorted(dl.short_name for dl in changes["new_diagnostic_layers"]),
                                      "deleted_layers": sorted(dl.short_name for dl in changes["deleted_diagnostic_layers"]),
                                      "layers": {k: observe_layer(v) for k, v in changes.items() if isinstance(v, dict)}}))
        depth["db"] += 1
        try:
            orig["pdc"](self, changes)  # the real printing code runs as well
        finally:
            depth["db"] -= 1

    def pdl(self: Any, sd: Dict[str, Any]) -> None:
        if depth["db"] == 0:
            events.append(("dl_changes", observe_layer(sd)))
        depth["db"] += 1
        try:
            orig["pdl"](self, sd)
        finally:
            depth["db"] -= 1

    old_argv, old_strict = sys.argv, ox.strict_mode
    pu.rich_print, cmp.rich_print = rec_pu, rec_cmp  # type: ignore[assignment]
    cmp.Comparison.print_database_changes, cmp.Comparison.print_dl_changes = pdc, pdl  # type: ignore[assignment]
    sys.argv = ["odxtools"] + list(argv)
    try:
        with contextlib.redirect_stdout(io.StringIO()):
            try:
                cli_main.start_cli()
            except SystemExit as e:
                events.append(("exit", e.code))
    finally:
        sys.argv = old_argv
        ox.strict_mode = old_strict
        pu.rich_print, cmp.rich_print = orig["pu"], orig["cmp"]  # type: ignore[assignment]
        cmp.Comparison.print_database_changes, cmp.Comparison.print_dl_changes = orig["pdc"], orig["pdl"]  # type: ignore[assignment]
    return events


def cli_variants(db_id: str) -> Dict[str, Dict[str, str]]:
    """the databases of the CLI phase: a = base, a2 = the same documents again, b = first applicable rename,
    c = semantic edit of the first parameter of the request of the LAST service (another service than b's if possible)"""
    files = ec.base_files(db_id, repo_root())
    svcs, _ = ec.targets(files)
    out = {"a": files, "a2": files}
    for s in svcs:
        try:
            out["b"] = ec.apply_edit(files, "rename", [s])[0]
            break
        except ec.NotApplicable:
            continue
    m = ref.Model(files)
    last = svcs[-1]
    rq = m.services[last].find("REQUEST-REF").get("ID-REF")
    out["c"] = ec.apply_edit(files, "semantic", [rq, 0])[0]
    return out


def write_pdx(path: str, files: Dict[str, str], aux: Dict[str, bytes]) -> None:
    with zipfile.ZipFile(path, "w") as z:
        for fn in sorted(files):
            z.writestr(fn, files[fn])
        for n, data in sorted(aux.items()):
            z.writestr(n, data)


def run_cli_case(case: Dict[str, Any], part: Optional[Part] = None) -> List[Tuple[str, str]]:
    out: List[Tuple[str, str]] = []
    cnt = part.count if part is not None else (lambda *a, **k: None)
    db_id = case["db"]
    aux = ec.base_aux(db_id, repo_root())
    var = cli_variants(db_id)
    d = os.path.join(emit.scratch_dir(), f"c18cli_{os.getpid()}_{next(_counter)}")
    os.makedirs(d)
    try:
        path = {}
        for k, f in var.items():
            path[k] = os.path.join(d, k + ".pdx")
            write_pdx(path[k], f, aux)
        want = {k: ref.metrics(f) for k, f in var.items()}
        all_layers = list(want["a"])
        if case["cli"] == "list":
            for argv_tail, names in (([], all_layers), (["-v"] + list(reversed(all_layers)) + ["-s", "-p"], list(reversed(all_layers))),
                                     (["-v", all_layers[-1], "-a"], [all_layers[-1]])):
                ev = drive_cli(["list", path["a"]] + argv_tail)
                tables = [x for t, x in ev if t == "table"]
                cnt("evaluations")
                cnt("cli_list_runs")
                if len(tables) != 1:
                    out.append(("C18/cli-list/overview-missing", f"`list {' '.join(argv_tail)}` printed {len(tables)} overview tables"))
                    continue
                out.extend(judge_rows(tables[0], want["a"], names, f"`list {' '.join(argv_tail)}`: ", "C18/cli-list"))
            return out
        first, dbs, use_v = case["first"], case.get("dbs", []), case.get("variants")
        with_services = [n for n in all_layers if want["a"][n]["services"] > 0]
        variants = (with_services[:2] if len(with_services) >= 2 else all_layers[:2]) if use_v else None
        argv = ["compare", path[first]]
        if dbs:
            argv += ["-db"] + [path[k] for k in dbs]
        if variants:
            argv += ["-v"] + variants
        try:
            ev = drive_cli(argv)
        except Exception as e:
            return [(f"C18/cli-compare/raises/{type(e).__name__}", f"`compare {first} -db {dbs} -v {variants}`: {type(e).__name__}: {e}")]
        cnt("cli_compare_runs")
        tag = f"`compare {first}.pdx" + (f" -db {' '.join(k + '.pdx' for k in dbs)}" if dbs else "") + (f" -v {' '.join(variants)}" if variants else "") + "`"
        if dbs:
            mode = "db+variants" if variants else "db"
            # sections: header "Changes in file 'X" / "(compared to 'Y')", two overview tables, one result
            sections: List[Dict[str, Any]] = []
            cur: Dict[str, Any] = {"x": None, "y": None, "tables": []}
            for t, x in ev:
                if t == "text":
                    m1 = re.search(r"Changes in file '([^'\n]+)", x)
                    m2 = re.search(r"compared to '([^'\n]+)", x)
                    if m1:
                        cur["x"] = m1.group(1)
                    if m2:
                        cur["y"] = m2.group(1)
                elif t == "table":
                    cur["tables"].append(x)
                elif t == "db_changes":
                    cur["obs"] = x
                    sections.append(cur)
                    cur = {"x": None, "y": None, "tables": []}
            heads = [[s_["x"], s_["y"]] for s_ in sections]
            want_heads = [[first + ".pdx", k + ".pdx"] for k in dbs]
            if heads != want_heads:
                out.append((f"C18/cli-compare/{mode}/sections", f"{tag}: report sections {heads}, expected {want_heads}"))
                return out
            shown = variants if variants else all_layers
            for k, sec in zip(dbs, sections):
                exp = ref.expected_changes(var[first], var[k])
                exp["layers"] = {n: e for n, e in exp["layers"].items() if n in shown}
                if exp["ambiguous"]:
                    cnt("out_of_envelope_ambiguous_prefix")
                    continue
                extra = sorted(set(sec["obs"]["layers"]) - set(shown))
                if extra:
                    out.append((f"C18/cli-compare/{mode}/unrequested-layers", f"{tag}: section {first} vs {k} reports on layers {extra}"))
                out.extend(judge(f"cli-compare/{mode}", None, exp, sec["obs"], f"{tag} section '{first}.pdx' compared to '{k}.pdx'"))
                if len(sec["tables"]) != 2:
                    out.append((f"C18/cli-compare/{mode}/overview-missing", f"{tag}: {len(sec['tables'])} overview tables in the section"))
                else:
                    out.extend(judge_rows(sec["tables"][0], want[first], shown, f"{tag} overview of {first}.pdx: ", f"C18/cli-compare/{mode}"))
                    out.extend(judge_rows(sec["tables"][1], want[k], shown, f"{tag} overview of {k}.pdx: ", f"C18/cli-compare/{mode}"))
                cnt("evaluations", len(exp["layers"]) + 2)
                cnt("cli_sections")
                if part is not None and any(l[c] for l in exp["layers"].values() for c in CATS):
                    part.add("nontrivial", digest((db_id, "cli", first, tuple(dbs), k, bool(variants))))
        else:
            # `compare <pdx> -v L1 L2 ...`: consecutive layers (database order) are compared with each other
            pairs = ref.expected_layer_pairs(var[first])
            sel = [n for n in all_layers if n in (variants or [])]
            heads2: List[Tuple[Optional[str], Optional[str]]] = []
            obs2: List[Dict[str, Any]] = []
            x = y = None
            for t, v in ev:
                if t == "text":
                    m1 = re.search(r"Changes in diagnostic layer '([^'\n]+)", v)
                    m2 = re.search(r"compared to '([^'\n]+)", v)
                    if m1:
                        x = m1.group(1)
                    if m2:
                        y = m2.group(1)
                elif t == "dl_changes":
                    heads2.append((x, y))
                    obs2.append(v)
                    x = y = None
            want2 = [(sel[i], sel[i + 1]) for i in range(len(sel) - 1)]
            if heads2 != want2:
                out.append(("C18/cli-compare/variants/sections", f"{tag}: report sections {heads2}, expected {want2}"))
                return out
            for (a, b), o in zip(heads2, obs2):
                pe = pairs[f"{a}/{b}"]
                if pe["ambiguous"]:
                    continue
                out.extend(judge("cli-compare/variants", None, {"new_layers": [], "deleted_layers": [], "layers": {f"{a}/{b}": pe["diff"]}},
                                 {"new_layers": [], "deleted_layers": [], "layers": {f"{a}/{b}": o}}, f"{tag} section {a} compared to {b}"))
                cnt("evaluations")
                cnt("cli_sections")
        return out
    finally:
        shutil.rmtree(d, ignore_errors=True)


def cli_cases(db_ids: List[str]) -> List[Dict[str, Any]]:
    """`compare F -db <every ordered selection of 1..3 of the other files>` for F in {a, b}, with and without -v;
    `compare a -v ...`; three `list` invocations per database"""
    cases: List[Dict[str, Any]] = []
    for db_id in db_ids:
        cases.append({"db": db_id, "cli": "list"})
        cases.append({"db": db_id, "cli": "compare", "first": "a", "dbs": [], "variants": True})
        for first in ("a", "b"):
            others = ["b", "a2", "c"] if first == "a" else ["a", "a2", "c"]
            for n in (1, 2, 3):
                for sel in itertools.permutations(others, n):
                    for v in (False, True):
                        cases.append({"db": db_id, "cli": "compare", "first": first, "dbs": list(sel), "variants": v})
    return cases


# ---------------------------------------------------------------------------------------------
# process isolation: every case (and every replay) runs in a forked child of a process that has never executed a
# comparison, so that a verdict cannot depend on what was compared before in the same process -- and history
# dependence itself is explored explicitly by the sequence cases below
# ---------------------------------------------------------------------------------------------
def isolated(fn: Any, *args: Any) -> Any:
    import pickle
    import traceback
    r, w = os.pipe()
    pid = os.fork()
    if pid == 0:
        code = 0
        try:
            os.close(r)
            try:
                res = ("ok", fn(*args))
            except BaseException as e:  # reported by the parent
                res = ("err", f"{type(e).__name__}: {e}\n{traceback.format_exc()[-1500:]}")
            cleanup()
            with os.fdopen(w, "wb") as f:
                pickle.dump(res, f)
        except BaseException:
            code = 1
        finally:
            os._exit(code)
    os.close(w)
    with os.fdopen(r, "rb") as f:
        data = f.read()
    os.waitpid(pid, 0)
    if not data:
        raise RuntimeError("isolated child died without a result")
    kind, val = pickle.loads(data)
    if kind == "err":
        raise RuntimeError("in isolated child: " + val)
    return val


# sequences of two comparisons in one process
SEQ_CMPS = [["a", "a2"], ["a", "a"], ["b", "a"], ["a", "b"], ["c", "a"], ["a", "c"], ["b", "c"]]
_VARDB: Dict[str, Dict[str, Any]] = {}


def var_dbs(db_id: str) -> Tuple[Dict[str, Dict[str, str]], Dict[str, Any]]:
    """the four databases of cli_variants(), each loaded on its own (a2 is an independently loaded copy of a)"""
    if db_id not in _VARDB:
        aux = ec.base_aux(db_id, repo_root())
        var = cli_variants(db_id)
        _VARDB[db_id] = {"files": var, "dbs": {k: load_as_pdx(f, aux) for k, f in var.items()}}
    return _VARDB[db_id]["files"], _VARDB[db_id]["dbs"]


def observe_cmp(task: Any, dbs: Dict[str, Any], pair: List[str]) -> Dict[str, Any]:
    new, old = dbs[pair[0]], dbs[pair[1]]
    if task is None:
        task = new_task([new, old])
    res = task.compare_databases(new, old)
    return {"new_layers": sorted(dl.short_name for dl in res["new_diagnostic_layers"]),
            "deleted_layers": sorted(dl.short_name for dl in res["deleted_diagnostic_layers"]),
            "layers": {k: observe_layer(v) for k, v in res.items() if isinstance(v, dict)}}


def run_seq_case(case: Dict[str, Any], part: Optional[Part] = None) -> List[Tuple[str, str]]:
    """{"db", "seq": [X, Y], "same_task": bool}: comparison X, then comparison Y in the same process (with a fresh
    Comparison object, or with one object for both as `compare F -db ...` uses it).  Y's answer has to be the answer Y
    gets as the first comparison of a process, and the one the reference demands.  Must run in an isolated child."""
    out: List[Tuple[str, str]] = []
    files, dbs = var_dbs(case["db"])
    x, y = case["seq"]
    fresh = isolated(observe_cmp, None, dbs, y)  # this process has not compared anything yet
    task = new_task(list(dbs.values())) if case.get("same_task") else None
    try:
        observe_cmp(task, dbs, x)
        after = observe_cmp(task, dbs, y)
    except Exception as e:
        return [(f"C18/sequence/raises/{type(e).__name__}", f"{x} then {y}: {type(e).__name__}: {e}")]
    tag = f"comparison {y[0]}-vs-{y[1]} after comparison {x[0]}-vs-{x[1]}" + (" (same Comparison object)" if case.get("same_task") else "")
    if after != fresh:
        diff = sorted(l for l in set(after["layers"]) | set(fresh["layers"]) if after["layers"].get(l) != fresh["layers"].get(l))
        l0 = diff[0] if diff else None
        out.append(("C18/sequence/answer-depends-on-history",
                    f"{tag}: differs from the same comparison done first in a fresh process in layers {diff}; "
                    f"fresh {({k: v for k, v in fresh['layers'].get(l0, {}).items() if k in CATS}) if l0 else fresh}, "
                    f"after {({k: v for k, v in after['layers'].get(l0, {}).items() if k in CATS}) if l0 else after}"))
    exp = ref.expected_changes(files[y[0]], files[y[1]])
    if not exp["ambiguous"]:
        out.extend(judge("sequence", None, exp, after, tag))
    if part is not None:
        part.count("evaluations", 2)
        part.count("sequences")
        if any(l[c] for l in exp["layers"].values() for c in CATS):
            part.add("nontrivial", digest((case["db"], "seq", x, y, bool(case.get("same_task")))))
    return out


def seq_cases(db_ids: List[str]) -> List[Dict[str, Any]]:
    return [{"db": d, "seq": [x, y], "same_task": st} for d in db_ids for x in SEQ_CMPS for y in SEQ_CMPS for st in (False, True)]


def cleanup() -> None:
    """pool workers are terminated without running atexit handlers, so the per-process scratch directory is removed
    explicitly (emit.scratch_dir() re-creates it on demand)"""
    d = emit._SCRATCH
    if d and d.endswith(str(os.getpid())):
        shutil.rmtree(d, ignore_errors=True)


def case_part(case: Dict[str, Any]) -> Part:
    import odxtools.exceptions as ox
    ox.strict_mode = True
    part = Part()
    for key, detail in run_case(case, part):
        part.violation(key, case, detail)
    return part


def preload(case: Dict[str, Any]) -> None:
    """what a case needs that is NOT a comparison is imported / loaded once per worker, before the fork"""
    import odxtools.cli._print_utils  # noqa: F401
    import odxtools.cli.compare  # noqa: F401
    import odxtools.cli.list  # noqa: F401
    import odxtools.cli.main  # noqa: F401
    if case.get("seq"):
        var_dbs(case["db"])
    elif not case.get("cli"):
        base(case["db"])


def unit(cases: List[Dict[str, Any]]) -> Part:
    part = Part()
    try:
        for case in cases:
            preload(case)
            part.merge(isolated(case_part, case))
    finally:
        cleanup()
    return part


def all_cases(db_ids: List[str], deep: bool) -> List[Dict[str, Any]]:
    cases: List[Dict[str, Any]] = []
    for db_id in db_ids:
        files = ec.base_files(db_id, repo_root())
        svcs, params = ec.targets(files)
        cases.append({"db": db_id, "edit": None})
        for e in ec.SERVICE_EDITS:
            for s in svcs:
                cases.append({"db": db_id, "edit": e, "target": [s], "deep": deep})
        for e in ec.PARAM_EDITS:
            for m, i in params:
                cases.append({"db": db_id, "edit": e, "target": [m, i], "deep": deep})
        for e in ec.DOP_EDITS:
            for d in ec.dop_targets(files):
                cases.append({"db": db_id, "edit": e, "target": [d], "deep": deep})
    return cases


def run(ctx: Ctx) -> None:
    db_ids = QUICK_DBS if ctx.quick else THOROUGH_DBS
    cases = all_cases(db_ids, deep=not ctx.quick)
    # the CLI and sequence phases use two of the six listing orders of the prefix databases (all orders get all edits)
    phase_dbs = [d for d in db_ids if d not in ec.PREFIX_DBS or d in ("prefixes_210", "prefixes_102")]
    clis = cli_cases(phase_dbs)
    seqs = seq_cases(phase_dbs)
    per_db = Counter(c["db"] for c in cases)
    ctx.bounds = {"databases": db_ids, "service_edits": ec.SERVICE_EDITS, "param_edits": ec.PARAM_EDITS, "dop_edits_in_place": ec.DOP_EDITS,
                  "roles_of_the_edited_input": ["edited-new", "edited-old"], "cases_per_database": dict(per_db),
                  "edits_per_case": 1,
                  "layer_orders_for_the_overview": "database order, reverse, all ordered pairs; base databases also single layers and all "
                                                   "permutations (<= 5 layers)",
                  "self_comparison_of_every_edited_database": "same object" + ("" if ctx.quick else " and independently loaded copy")}
    ctx.rule = ("every (database, edit kind, target) of the alphabet is built, loaded and compared in both roles through "
                "compare_databases and compare_diagnostic_layers; non-trivial = distinct (database, edit, target, role) whose "
                "expected report is non-empty, plus the metrics table of each base database")
    ctx.assumptions = [
        "the kind of a change is decided by ODX object identity (ID of the DIAG-SERVICE); constant request prefixes of the services "
        "applicable to one layer are pairwise distinct before and after the edit (otherwise the case is counted as out of envelope)",
        "rename and delete are consistent refactorings: short-name references (NOT-INHERITED-DIAG-COMM) to the service follow",
        "bit length / data type of a parameter that takes them from a DOP are edited by linking a modified clone of that DOP "
        "(an in-place DOP edit would change every parameter using it and is no single-parameter edit)",
        "the overview counts applicable (inherited) objects: DIAG-SERVICEs without single ECU jobs, DATA-OBJECT-PROPs, "
        "COMPARAM-REFs after overriding by (comparam, protocol); a literally repeated COMPARAM-REF may or may not be counted",
        "GLOBAL-NEG-RESPONSEs, structures and single ECU jobs are not compared by the tool and are not edited",
        "a service a layer defines itself under the short name and constant prefix of an inherited one (override) is the same service "
        "for a layer-vs-layer comparison; expected are exactly the parameters that differ",
        "databases whose containers have different short names are compared only where no DOP exists: the identity of a DOP includes "
        "its document, so the tool reports every DOP-linked parameter as 'Linked DOP object' change there (DON'T-CARE, not judged)",
    ]
    ctx.bounds["cli_invocations"] = {"total": len(clis), "compare": "first file a (base) or b (rename); -db every ordered selection of "
                                     "1..3 of the other files among a / a2 (same content) / b (rename) / c (semantic edit); each with and "
                                     "without -v <two layers>; plus `compare a -v`", "list": "no option; -v <all layers reversed> -s -p; -v <last layer> -a"}
    ctx.bounds["sequences"] = {"total": len(seqs), "comparisons": SEQ_CMPS, "rule": "all ordered pairs (X, Y) of the comparisons, incl. X = Y, "
                               "with a fresh Comparison object per comparison and with one object for both; files a = base, a2 = same "
                               "content loaded again, b = rename, c = semantic edit"}
    chunks = ([cases[i:i + 6] for i in range(0, len(cases), 6)] + [clis[i:i + 4] for i in range(0, len(clis), 4)] +
              [seqs[i:i + 14] for i in range(0, len(seqs), 14)])
    pmap(ctx, unit, chunks)
    c = ctx.counts
    for e in ec.SERVICE_EDITS + ec.PARAM_EDITS + ec.DOP_EDITS:
        ctx.guard(f"edit kind {e} applied at least once", c.get("applied_" + e, 0) > 0)
    ctx.guard("cases expecting a report and cases expecting silence both seen",
              c.get("cases_expecting_a_report", 0) > 0 and c.get("cases_expecting_silence", 0) > 0)
    ctx.guard("no case left the envelope (ambiguous prefixes)", c.get("out_of_envelope_ambiguous_prefix", 0) == 0)
    ctx.guard("all four change kinds expected somewhere", {"new", "deleted", "rename"} <= ctx.sets.get("expected_kinds", set()))
    ctx.guard("metrics table captured", ctx.sets.get("metrics_capture", set()) <= {"table-object", "text"} and bool(ctx.sets.get("metrics_capture")))
    ctx.guard("metric rows checked", c.get("metric_rows", 0) > 0)
    ctx.guard("layer pairs with an overriding service that expect changed parameters, renamed-container comparisons",
              c.get("layer_pairs_expecting_changed_parameters", 0) > 0 and c.get("renamed_container_comparisons", 0) > 0)
    ctx.guard("sequences of two comparisons judged", c.get("sequences", 0) == len(seqs))
    ctx.guard("CLI: compare sections and list runs judged", c.get("cli_sections", 0) > 0 and c.get("cli_list_runs", 0) > 0)
    sh = ref.metrics(ec.base_files("shared", repo_root()))
    order = list(sh)
    ctx.guard("a layer without communication parameters (ECU-SHARED-DATA) is listed after layers that have some",
              any(sh[n]["type"] == "ECU-SHARED-DATA" and sh[n]["comparams"] == [0, 0] and any(sh[m]["comparams"][0] > 0 for m in order[:i])
                  for i, n in enumerate(order)))
    ctx.sample({"db": "somersault", "edit": "rename", "target": ["somersault.service.session_start"]})


def replay_here(case: Dict[str, Any]) -> List[Tuple[str, str]]:
    import odxtools.exceptions as ox
    ox.strict_mode = True
    return run_case(case, None)


def replay(case: Any) -> List[Tuple[str, str]]:
    """re-executes one case (a single edit, a CLI invocation or a SEQUENCE of comparisons) in a forked child, so that
    the replays of one ./run do not influence each other either"""
    try:
        return isolated(replay_here, dict(case))
    finally:
        cleanup()
