"""C06 -- messages are attributed to exactly the services whose description matches.

Enumerated (exhaustively, no sampling): ALL ordered sets of 1..2 (quick) / 1..3 (thorough) services drawn from an
alphabet of 12 service shapes (shared, nested and empty constant request prefixes, tails of differing length,
a coded constant behind a value, positive responses with MATCHING-REQUEST-PARAMs inside / outside / straddling
the constant prefix, negative responses with NRC-CONST lists {11,12} / {31}) x 0..2 global negative responses;
plus ALL ordered sets of the same sizes over a second alphabet (requests whose leading constant is one 16 / 24 bit
CODED-CONST or is split 4+4 / 4+12 bits, together with S10b and S22F190) that contain one of the new shapes;
one diagnostic layer per set, emitted as ODX and loaded by the real loader.  Per layer:
  * DiagLayer.decode(M) for ALL byte strings M of length <= 3 (quick) / <= 4 (thorough) over the layer's byte
    alphabet (every byte of a coded constant / NRC list of the layer, plus 00 and FF) and for the own encodings of
    every request and response over small value alphabets;
  * DiagLayer.decode_response(P, R) for every own request encoding R and every response encoding P made for R;
  * DiagLayer.decode_response(P, Q) for one response P per (service, response object) and ALL byte strings Q (length <= 2..4
    depending on tier and layer size) as the request: only services reachable through Q from its first byte may be reported;
  * the values reported for every own request / response are fed back to the coding object's encoder and must give the
    same bytes (multi-byte MATCHING-REQUEST-PARAMs included);
  * DiagLayer.service_groups[sid] for all 256 sids;
  * call sequences: ALL sequences of 3 calls over a per-layer op alphabet (per service decode(request), decode(response),
    decode_response(response, request)), each on its own freshly loaded layer object; every result must equal the
    result of the same call made first on a fresh object (order, multiplicity and values) -- the cached prefix tree
    must not be changed by lookups.
  * edit + refresh: for every kind of layer (base / ECU variant, functional group, protocol, ECU-SHARED-DATA, an ECU
    variant inheriting everything from a base variant) the layer is used, then a service is dropped and/or the SID
    constants of a service are changed on the loaded objects, Database.refresh() is called and every decode /
    decode_response / service_groups answer must equal that of a database freshly loaded from the edited description.
  * inheritance: an ECU variant inherits services and two global negative responses from a base variant; its PARENT-REF
    excludes none / one / both of them; the child's answers are judged with the excluded ones removed from the reference.
A third alphabet has sibling services with one SID told apart by a PHYS-CONST identifier which the responses echo.
Oracle: odxmodel.refdispatch (three-valued, independent).  See the module docstring there.
"""
from __future__ import annotations

import copy
import itertools
import json
import shutil
import warnings
from typing import Any, Dict, List, Optional, Tuple

from mcx.core import Ctx, Part, digest, jdump, pmap
from odxmodel import emit, refdispatch
from odxmodel.harness import same_value
from odxmodel.refdispatch import MATCH, MAY, MAYBE, MUST, MUSTNOT, NOMATCH

PROPERTY = "C06"
LEVEL = "model_checking"

U8 = {"k": "STD", "base": "A_UINT32", "bits": 8}
U16 = {"k": "STD", "base": "A_UINT32", "bits": 16}
DOPS = [{"name": "u8", "dct": U8}, {"name": "u16", "dct": U16}, {"name": "u4", "dct": {"k": "STD", "base": "A_UINT32", "bits": 4}}]


def cc(name: str, v: int) -> Dict[str, Any]:
    return {"t": "CODED-CONST", "name": name, "dct": U8, "value": v}


def ccn(name: str, v: int, bits: int, byte: Optional[int] = None, bit: Optional[int] = None) -> Dict[str, Any]:
    d: Dict[str, Any] = {"t": "CODED-CONST", "name": name, "dct": {"k": "STD", "base": "A_UINT32", "bits": bits}, "value": v}
    if byte is not None:
        d["byte"] = byte
    if bit is not None:
        d["bit"] = bit
    return d


def mmc(name: str, value: bytes, term: str) -> Dict[str, Any]:
    """CODED-CONST of a MIN-MAX-LENGTH byte field (1..4 bytes), value shorter than the maximum"""
    return {"t": "CODED-CONST", "name": name, "dct": {"k": "MINMAX", "base": "A_BYTEFIELD", "min": 1, "max": 4, "term": term}, "value": value}


def physc(name: str, dop: str, const: int) -> Dict[str, Any]:
    return {"t": "PHYS-CONST", "name": name, "dop": dop, "const": const}


def val(name: str, dop: str, byte: Optional[int] = None, bit: Optional[int] = None) -> Dict[str, Any]:
    d: Dict[str, Any] = {"t": "VALUE", "name": name, "dop": dop}
    if byte is not None:
        d["byte"] = byte
    if bit is not None:
        d["bit"] = bit
    return d


def mrp(name: str, rq: int, n: int) -> Dict[str, Any]:
    return {"t": "MATCHING-REQUEST-PARAM", "name": name, "rq_byte": rq, "len": n}


def nrc(values: List[int]) -> List[Dict[str, Any]]:
    # NRC-CONST with the customary overlapping VALUE parameter (both at byte 2)
    return [{"t": "NRC-CONST", "name": "nrcc", "dct": U8, "values": values, "byte": 2}, val("nrc", "u8", 2)]


# responses (shared between the services of a layer, as is customary in ODX data)
RESPONSES: Dict[str, Dict[str, Any]] = {
    "pr50": {"kind": "POS-RESPONSE", "params": [cc("sid", 0x50)]},
    "pr50e": {"kind": "POS-RESPONSE", "params": [cc("sid", 0x50), mrp("echo", 1, 1)]},
    "pr50ep": {"kind": "POS-RESPONSE", "params": [cc("sid", 0x50), mrp("echo", 1, 1), val("p", "u8")]},
    "pr50e0": {"kind": "POS-RESPONSE", "params": [cc("sid", 0x50), mrp("echo", 0, 1)]},
    "pr62e1": {"kind": "POS-RESPONSE", "params": [cc("sid", 0x62), mrp("echo", 1, 1), val("d", "u8")]},
    "pr62e2": {"kind": "POS-RESPONSE", "params": [cc("sid", 0x62), mrp("echo", 1, 2), val("d", "u8")]},
    "nrA": {"kind": "NEG-RESPONSE", "params": [cc("sid", 0x7F), mrp("rsid", 0, 1)] + nrc([0x11, 0x12])},
    "nrB": {"kind": "NEG-RESPONSE", "params": [cc("sid", 0x7F), mrp("rsid", 0, 1)] + nrc([0x31])},
}
# responses of the "gap" shapes (a variable byte between two constants, listed AFTER them)
RESPONSES.update({
    "pr6Fg": {"kind": "POS-RESPONSE", "params": [cc("sid", 0x6F), ccn("tail", 0x03, 8, 2), val("y", "u8", 1)]},
    "pr6Fe": {"kind": "POS-RESPONSE", "params": [cc("sid", 0x6F), mrp("echo", 1, 1)]},
})
RESPONSES["prZ"] = {"kind": "POS-RESPONSE", "params": []}  # a response without any parameter (legal: an acknowledgement without payload)
GNR_EMPTY = ("gnrZ", {"kind": "GLOBAL-NEG-RESPONSE", "params": []})  # GNR configuration 3: one GNR without any parameter
GNRS: List[Tuple[str, Dict[str, Any]]] = [
    ("gnr1", {"kind": "GLOBAL-NEG-RESPONSE", "params": [cc("sid", 0x7F), mrp("rsid", 0, 1)] + nrc([0x31, 0x11])}),
    ("gnr2", {"kind": "GLOBAL-NEG-RESPONSE", "params": [cc("sid", 0x7F), val("rsid", "u8")] + nrc([0x12])}),
]

# the 12 service shapes: name -> (request parameters, positive response, negative response)
SHAPES: Dict[str, Tuple[List[Dict[str, Any]], Optional[str], Optional[str]]] = {
    "S10": ([cc("sid", 0x10)], "pr50", "nrA"),
    "S10b": ([cc("sid", 0x10), val("x", "u8")], "pr50e", "nrA"),
    "S10w": ([cc("sid", 0x10), val("x", "u16")], "pr50e", "nrB"),
    "S1001": ([cc("sid", 0x10), cc("sub", 0x01)], "pr50e", "nrA"),
    "S1001b": ([cc("sid", 0x10), cc("sub", 0x01), val("x", "u8")], "pr50ep", None),
    "S1002": ([cc("sid", 0x10), cc("sub", 0x02)], "pr50e", "nrB"),
    "S10bc": ([cc("sid", 0x10), val("x", "u8"), cc("tail", 0x02)], "pr50e", None),
    "S22w": ([cc("sid", 0x22), val("did", "u16")], "pr62e2", "nrA"),
    "S22F1": ([cc("sid", 0x22), cc("hi", 0xF1)], "pr62e1", None),
    "S22F1b": ([cc("sid", 0x22), cc("hi", 0xF1), val("x", "u8")], "pr62e2", "nrB"),
    "S22F190": ([cc("sid", 0x22), cc("hi", 0xF1), cc("lo", 0x90)], "pr62e2", "nrA"),
    "Eb": ([val("x", "u8")], "pr50e0", None),
}
SHAPE_NAMES = list(SHAPES)
# second alphabet: the leading constant of the request is NOT one 8-bit CODED-CONST (one wider constant, or split at
# a nibble).  Explored in layers of their own (together with S10b and S22F190, whose prefixes they share) so that the
# main alphabet stays at 12 shapes.
SHAPES.update({
    "W16": ([ccn("sidsub", 0x1003, 16)], "pr50e", "nrA"),                                       # 10 03
    "W16b": ([ccn("sidsub", 0x1001, 16), val("x", "u8")], "pr50ep", None),                      # 10 01 xx
    "W24": ([ccn("siddid", 0x22F190, 24)], "pr62e2", "nrA"),                                    # 22 F1 90
    "N44": ([ccn("hi", 0x1, 4, 0, 4), ccn("lo", 0x0, 4, 0, 0), val("x", "u8", 1)], "pr50e", "nrA"),   # 1|0 xx
    "N412": ([ccn("hi", 0x1, 4, 0, 4), ccn("rest", 0x003, 12, 0, 0)], "pr50e", "nrB"),           # 1|0 03
})
WIDE_NAMES = ["W16", "W16b", "W24", "N44", "N412"]
WIDE_ALPHABET = WIDE_NAMES + ["S10b", "S22F190"]
# third alphabet: sibling services share the SID and are told apart by a PHYS-CONST identifier in the request; their
# responses echo it with a MATCHING-REQUEST-PARAM (which is checked through the constant prefix only)
SHAPES.update({
    "P1001": ([cc("sid", 0x22), physc("did", "u16", 0x1001)], "pr62e2", "nrA"),                  # 22 10 01
    "P1002": ([cc("sid", 0x22), physc("did", "u16", 0x1002)], "pr62e2", "nrB"),                  # 22 10 02
    "P10b": ([cc("sid", 0x22), physc("hi", "u8", 0x10), val("x", "u8")], "pr62e2", None),        # 22 10 xx (echo straddles)
})
PC_NAMES = ["P1001", "P1002", "P10b"]
PC_ALPHABET = PC_NAMES + ["S22w", "S22F190"]
# fourth alphabet: the constants of the request / response do not form one contiguous run -- a variable byte (or
# nibble) lies between two constants and is listed after them; the constant prefix ends in front of the gap
SHAPES.update({
    "G2F": ([cc("sid", 0x2F), ccn("tail", 0x03, 8, 2), val("x", "u8", 1)], "pr6Fg", "nrA"),                          # 2F xx 03
    "G2Fn": ([cc("sid", 0x2F), ccn("hi", 0x1, 4, 1, 4), ccn("tail", 0x03, 8, 2), val("n", "u4", 1, 0)], "pr6Fg", None),  # 2F 1n 03
    "S2F00": ([cc("sid", 0x2F), cc("sub", 0x00)], "pr6Fe", "nrB"),                                                    # 2F 00
    "S2Fb": ([cc("sid", 0x2F), val("x", "u8")], "pr6Fe", "nrA"),                                                      # 2F xx
})
# fifth alphabet: coding objects WITHOUT any parameter (an empty positive response, an empty request; GNR configuration 3
# is an empty global negative response)
SHAPES.update({
    "Z10": ([cc("sid", 0x10)], "prZ", "nrA"),
    "Zrq": ([], "pr50", None),
})
EMPTY_NAMES = ["Z10", "Zrq"]
EMPTY_ALPHABET = EMPTY_NAMES + ["S10b", "S1001"]
# sixth alphabet: the LAST parameter of request and response is a MIN-MAX-LENGTH constant (all three terminations); at
# the end of the PDU it is encoded without its terminator, so the constant prefix is the whole message
RESPONSES.update({
    "pr6Ez": {"kind": "POS-RESPONSE", "params": [cc("sid", 0x6E), mmc("id", b"AB", "ZERO")]},
    "pr6Ef": {"kind": "POS-RESPONSE", "params": [cc("sid", 0x6E), mmc("id", b"AC", "HEX-FF")]},
    "pr6Ee": {"kind": "POS-RESPONSE", "params": [cc("sid", 0x6E), mmc("id", b"A", "END-OF-PDU")]},
})
SHAPES.update({
    "M2Ez": ([cc("sid", 0x2E), mmc("id", b"AB", "ZERO")], "pr6Ez", "nrA"),          # 2E 41 42
    "M2Ef": ([cc("sid", 0x2E), mmc("id", b"AC", "HEX-FF")], "pr6Ef", "nrB"),        # 2E 41 43
    "M2Ee": ([cc("sid", 0x2E), mmc("id", b"A", "END-OF-PDU")], "pr6Ee", None),      # 2E 41
    "S2Eb": ([cc("sid", 0x2E), val("x", "u8")], "pr6Ee", "nrA"),                    # 2E xx
})
MM_NAMES = ["M2Ez", "M2Ef", "M2Ee"]
MM_ALPHABET = MM_NAMES + ["S2Eb"]
GAP_NAMES = ["G2F", "G2Fn"]
GAP_ALPHABET = GAP_NAMES + ["S2F00", "S2Fb"]
VALUES = {"u8": [0x00, 0x01, 0x5A, 0xFF], "u16": [0x0000, 0x0102, 0xF190, 0xA55A], "u4": [0x0, 0x1, 0xA, 0xF]}
RESP_VALUES = {"u8": [0x00, 0x5A]}


def layer_spec(name: str, shapes: List[str], ngnr: int) -> Dict[str, Any]:
    msgs: List[Dict[str, Any]] = []
    svcs: List[Dict[str, Any]] = []
    used: List[str] = []
    for sh in shapes:
        rq, pos, neg = SHAPES[sh]
        msgs.append({"kind": "REQUEST", "name": "rq_" + sh, "params": rq})
        for r in (pos, neg):
            if r is not None and r not in used:
                used.append(r)
        svcs.append({"name": sh, "request": "rq_" + sh, "pos": [pos] if pos else [], "neg": [neg] if neg else []})
    for r in used:
        msgs.append({"kind": RESPONSES[r]["kind"], "name": r, "params": RESPONSES[r]["params"]})
    for gname, g in ([GNR_EMPTY] if ngnr == 3 else GNRS[:ngnr]):
        msgs.append({"kind": g["kind"], "name": gname, "params": g["params"]})
    return {"type": "BASE-VARIANT", "name": name, "dops": DOPS, "msgs": msgs, "svcs": svcs}


# ---------------------------------------------------------------------------------------------
# observation of the real code
# ---------------------------------------------------------------------------------------------
def observe(fn: Any, *args: bytes, keep: Optional[List[Any]] = None) -> Tuple[str, Any]:
    """-> ("ok", [(service, coding object, param_dict)]) | ("DecodeError", text) | ("exc:<Type>", text);
    keep: list that receives the Message objects"""
    from odxtools.exceptions import DecodeError
    try:
        res = fn(*args)
    except DecodeError as e:
        return "DecodeError", str(e)[:160]
    except Exception as e:  # noqa
        return "exc:" + type(e).__name__, str(e)[:160]
    out = []
    for m in res:
        out.append((m.service.short_name, getattr(m.coding_object, "short_name", None), m.param_dict))
    if keep is not None:
        keep.extend(res)
    return "ok", out


def via_check(ref: refdispatch.RefLayer, P: bytes, Q: bytes, obs: Tuple[str, Any]) -> List[Tuple[str, str]]:
    """decode_response(P, Q): a service may only be reported if one of its coding objects (or a global negative
    response) carries its constant prefix on the request string Q from the first byte"""
    out: List[Tuple[str, str]] = []
    if obs[0] != "ok":
        return out
    for sname, cname, _ in obs[1]:
        if sname not in ref.own:
            continue
        prefixes = [ref.plan_for(m, ref.rp[sname]).prefix for m in ref.own[sname] + ref.gnrs]
        if not any(Q.startswith(pfx) for pfx in prefixes):
            out.append(("C06/decode_response/service-not-reachable-through-the-request",
                        f"decode_response({P.hex()}, request {Q.hex()}) reports ({sname}, {cname}) although no coding object of {sname} "
                        f"has its constant prefix ({sorted({x.hex() for x in prefixes})}) at the start of the request; "
                        f"services of the layer: {[x['name'] for x in ref.svcs]}"))
            break
    return out


def reencode_diff(ref: refdispatch.RefLayer, messages: List[Any], svc: str, obj: str, M: bytes, R: Optional[bytes]) -> Optional[str]:
    """'original values': the values reported for (svc, obj) are those the message was made from, i.e. the coding object
    encodes them to M again (NRC-CONST values cannot be passed to the encoder and are left out)."""
    nrc_names = {p["name"] for p in ref.msgs[obj]["params"] if p["t"] == "NRC-CONST"}
    for m in messages:
        if m.service.short_name != svc or getattr(m.coding_object, "short_name", None) != obj:
            continue
        values = {k: v for k, v in dict(m.param_dict).items() if k not in nrc_names}
        try:
            again = m.coding_object.encode(**values) if R is None else m.coding_object.encode(coded_request=R, **values)
        except Exception as ex:  # noqa
            return f"reported values {values} are refused by {obj}.encode(): {type(ex).__name__}: {str(ex)[:120]}"
        if bytes(again) != M:
            return f"reported values {values} encode to {bytes(again).hex()} instead of {M.hex()}"
        return None
    return None


def show_obs(obs: Tuple[str, Any]) -> str:
    if obs[0] != "ok":
        return f"{obs[0]}: {obs[1]}"
    return "reported " + str(sorted({(s, c) for s, c, _ in obs[1]}))


# ---------------------------------------------------------------------------------------------
# oracle
# ---------------------------------------------------------------------------------------------
def abort_class(ref: refdispatch.RefLayer, exp: Dict[str, Dict[str, Any]], missing: str, via: Optional[bytes]) -> Optional[str]:
    """Name the OTHER candidate service that cannot decode M (for the key only; the verdict does not depend on
    it): a service one of whose objects carries its prefix on M but which is too short / has an unlisted NRC /
    is ambiguous; for decode_response a service found through the request that has no response for M at all."""
    found = set()
    for s, e in exp.items():
        if s == missing:
            continue
        cs = list(e["own"].values()) + list(e["gnr"].values())
        reasons = {c[2] for c in cs if c[0] == NOMATCH}
        if e["status"] == MUSTNOT:
            if "short" in reasons:
                found.add("short-candidate-aborts-decode")
            elif "nrc" in reasons:
                found.add("nrc-mismatch-candidate-aborts-decode")
            elif via is not None and reachable(ref, s, via):
                found.add("decode_response/candidate-without-matching-response-aborts")
        else:
            if any(c[0] == NOMATCH and c[2] == "short" for c in e["own"].values()):
                found.add("short-coding-object-aborts-service")
            if e["ambiguous"]:
                found.add("ambiguous-candidate-aborts-decode")
    for k in ("short-candidate-aborts-decode", "short-coding-object-aborts-service", "nrc-mismatch-candidate-aborts-decode",
              "ambiguous-candidate-aborts-decode", "decode_response/candidate-without-matching-response-aborts"):
        if k in found:
            return k
    return None


def reachable(ref: refdispatch.RefLayer, svc: str, X: bytes) -> bool:
    """some coding object of the service (or global negative response) has a NON-EMPTY constant prefix on X"""
    for m in ref.own[svc] + ref.gnrs:
        pfx = ref.plan_for(m, ref.rp[svc]).prefix
        if pfx and X.startswith(pfx):
            return True
    return False


def judge(ref: refdispatch.RefLayer, M: bytes, obs: Tuple[str, Any], api: str,
          only: Optional[str] = None, exp: Optional[Dict[str, Dict[str, Any]]] = None,
          via: Optional[bytes] = None, solo: Any = None) -> List[Tuple[str, str]]:
    """Compare one observation with the reference.  `only`: demand the MUST side for this service only
    (decode_response: the service that was asked); `via`: the bytes through which candidates are looked up (the
    request for decode_response, else M) and `solo`: callable(service) -> observation of the same call on a layer
    that contains this service only -- both used for naming the finding only."""
    if exp is None:
        exp = ref.expect(M)
    out: List[Tuple[str, str]] = []
    must = [s for s, e in exp.items() if e["status"] == MUST and (only is None or s == only)]
    kind = obs[0]
    if kind.startswith("exc:"):
        out.append((f"C06/{api}/raises-{kind[4:]}", f"{api}({M.hex()}): {obs[1]}"))
        return out
    reported: List[Tuple[str, Optional[str], Any]] = obs[1] if kind == "ok" else []
    rsvcs = {s for s, _, _ in reported}
    if kind == "ok" and not reported:
        out.append((f"C06/{api}/returns-empty-list", f"{api}({M.hex()}) returned [] instead of raising DecodeError"))
    # MUST side (one key per missing service, named after the first applicable cause)
    for s in must:
        if s in rsvcs:
            continue
        e = exp[s]
        why = {m: c[0] for m, c in list(e["own"].items()) + list(e["gnr"].items()) if c[0] != NOMATCH}
        detail = (f"{api}({M.hex()}): service {s} matches ({why}) but is not reported; "
                  f"{show_obs(obs)}; services of the layer: {[x['name'] for x in ref.svcs]}, gnrs {ref.gnrs}")
        # attribution (for the key only): is the service reported when it is ALONE in the layer?
        alone = solo(s) if solo is not None else None
        inside = alone is None or alone[0] != "ok" or s not in {x for x, _, _ in alone[1]}
        if inside and not reachable(ref, s, M if via is None else via):
            key = "C06/empty-prefix-service-not-found"
        elif inside and any(c[0] == NOMATCH and c[2] == "short" for c in e["own"].values()):
            key = "C06/short-coding-object-aborts-service"
        elif inside:
            key = f"C06/{api}/matching-service-not-reported"
        elif kind == "DecodeError":
            ac = abort_class(ref, exp, s, via)
            key = f"C06/{ac}" if ac else f"C06/{api}/raises-although-a-service-matches"
        else:
            key = f"C06/{api}/matching-service-not-reported-among-others"
        if key not in [k for k, _ in out]:
            out.append((key, detail))
    # required pairs and values
    pairs = {(s, c) for s, c, _ in reported}
    for s in must:
        if s not in rsvcs:
            continue
        for c in exp[s]["required"]:
            if (s, c) not in pairs:
                out.append((f"C06/{api}/matching-object-not-reported",
                            f"{api}({M.hex()}): {s} reported but not with its matching object {c}; {show_obs(obs)}"))
    # MUST-NOT side
    for s, c, pd in reported:
        e = exp.get(s)
        if e is None or (c not in e["own"] and c not in e["gnr"]):
            out.append((f"C06/{api}/reports-foreign-object", f"{api}({M.hex()}): reported ({s}, {c}) which is no object of that service"))
            continue
        cls, values, reason = e["own"][c] if c in e["own"] else e["gnr"][c]
        if cls == NOMATCH and c in e["gnr"] and reason == "prefix":
            out.append(("C06/gnr-reported-without-its-prefix",
                        f"{api}({M.hex()}): reported ({s}, {c}) although the constant prefix of {c} "
                        f"({ref.plan_for(c, ref.rp[s]).prefix.hex()} for {s}) is not on the message; {show_obs(obs)}; "
                        f"services of the layer: {[x['name'] for x in ref.svcs]}"))
        elif cls == NOMATCH:
            out.append((f"C06/{api}/reports-non-matching-object/{reason}",
                        f"{api}({M.hex()}): reported ({s}, {c}) although it cannot match ({reason}); {show_obs(obs)}"))
        elif cls == MATCH and not same_value(values, dict(pd)):
            out.append((f"C06/{api}/wrong-values", f"{api}({M.hex()}): ({s}, {c}) decoded as {dict(pd)}, reference {values}"))
    return out


_SOLO: Dict[Tuple[str, int], Any] = {}


def solo_fn(ngnr: int, api: str, M: bytes, R: Optional[bytes] = None) -> Any:
    """-> callable(service shape) -> observation of the same call on the layer [that service] (same gnrs)"""

    def f(shape: str) -> Tuple[str, Any]:
        k = (shape, ngnr)
        if k not in _SOLO:
            db, specs = build([((shape,), ngnr)])
            _SOLO[k] = db.diag_layers[specs[0]["name"]]
        layer = _SOLO[k]
        try:
            return observe(layer.decode, M) if api == "decode" else observe(layer.decode_response, M, R)
        except Exception as ex:  # noqa
            return "exc:" + type(ex).__name__, str(ex)
    return f


# ---------------------------------------------------------------------------------------------
# per-layer exploration
# ---------------------------------------------------------------------------------------------
def value_assignments(ref: refdispatch.RefLayer, msg: str, alphabet: Dict[str, List[int]]) -> List[Dict[str, int]]:
    names: List[str] = []
    doms: List[List[int]] = []
    nrc_vals: Optional[List[int]] = None
    for p in ref.msgs[msg]["params"]:
        if p["t"] == "NRC-CONST":
            nrc_vals = list(p["values"])
    for p in ref.msgs[msg]["params"]:
        if p["t"] == "VALUE":
            names.append(p["name"])
            if p["name"] == "nrc" and nrc_vals is not None:
                doms.append(nrc_vals)
            else:
                doms.append(alphabet[p["dop"]] if p["dop"] in alphabet else VALUES[p["dop"]])
    return [dict(zip(names, combo)) for combo in itertools.product(*doms)]


def own_messages(ref: refdispatch.RefLayer) -> Tuple[List[Tuple[str, str, Dict[str, int], bytes]],
                                                      List[Tuple[str, str, Dict[str, int], bytes, bytes]]]:
    """-> requests [(service, object, values, R)], responses [(service, object, values, P, R)]"""
    rqs, rsps = [], []
    for s in ref.svcs:
        for values in value_assignments(ref, s["request"], VALUES):
            R = ref.encode(s["request"], values)
            rqs.append((s["name"], s["request"], values, R))
            for c in list(s.get("pos", [])) + list(s.get("neg", [])) + ref.gnrs:
                for rv in value_assignments(ref, c, RESP_VALUES):
                    try:
                        P = ref.encode(c, rv, R)
                    except refdispatch.Envelope:
                        continue  # the request is too short to be echoed by this response
                    rsps.append((s["name"], c, rv, P, R))
    return rqs, rsps


def byte_alphabet(ref: refdispatch.RefLayer) -> List[int]:
    return sorted(set(ref.constants()) | {0x00, 0xFF})


def pattern(exp: Dict[str, Dict[str, Any]]) -> Tuple[Any, ...]:
    return tuple(sorted((s, m, c[0]) for s, e in exp.items() for m, c in list(e["own"].items()) + list(e["gnr"].items())
                        if c[0] != NOMATCH))


def case_of(shapes: List[str], ngnr: int, op: str, M: bytes, R: Optional[bytes] = None, only: Optional[str] = None) -> Dict[str, Any]:
    c: Dict[str, Any] = {"services": list(shapes), "gnrs": ngnr, "op": op, "msg": M.hex()}
    if R is not None:
        c["request"] = R.hex()
    if only is not None:
        c["service"] = only
    return c


def request_string_length(nservices: int, ngnr: int, quick: bool) -> int:
    """bound on the length of the arbitrary request strings of decode_response for a layer"""
    if quick:
        return 3 if (nservices <= 2 and ngnr == 0) else 2
    if nservices <= 2:
        return 4 if ngnr == 0 else 3
    return 2


def check_layer(layer: Any, ref: refdispatch.RefLayer, shapes: List[str], ngnr: int, maxlen: int, part: Part,
                selftest: bool = False, qlen: int = 0) -> None:
    part.count("layers")
    _LAYER_CTX.update(maxlen=maxlen, qlen=qlen)
    # 0. the reference agrees with itself: every own encoding is a MATCH of its object with the original values
    rqs, rsps = own_messages(ref)
    for svc, c, values, R in rqs:
        cls, vals, _ = ref.classify(c, R, ref.rp[svc])
        if cls != MATCH or any(vals[k] != v for k, v in values.items()):
            raise AssertionError(f"reference inconsistent: {svc} {c} {values} {R.hex()} -> {cls} {vals}")
    # 1. the layer can build its dispatch structures at all
    try:
        layer._prefix_tree  # noqa  (cached; every decode needs it)
    except Exception as ex:  # noqa
        part.count("evaluations")
        report(part, f"C06/prefix-tree/raises-{type(ex).__name__}", case_of(shapes, ngnr, "decode", b"\x00"),
                       f"layer with services {shapes}, {ngnr} gnrs: building the prefix tree raises {type(ex).__name__}: {str(ex)[:200]}")
        return
    # 2. service groups
    part.count("evaluations")
    bad = groups_diff(layer, ref)
    if bad:
        report(part, "C06/service_groups/differs", case_of(shapes, ngnr, "groups", b""), bad)
    # 3. decode: all byte strings up to maxlen over the byte alphabet + own encodings
    alpha = byte_alphabet(ref)
    aset = set(alpha)
    for b in alpha:
        part.add("bytes", b)
    own = sorted({M for M in [R for _, _, _, R in rqs] + [P for _, _, _, P, _ in rsps] if len(M) > maxlen or not set(M) <= aset})
    part.count("own_encodings_outside_the_enumerated_strings", len(own))
    msgs = itertools.chain((bytes(t) for n in range(0, maxlen + 1) for t in itertools.product(alpha, repeat=n)), own)
    decode = layer.decode
    n_calls = n_ok = n_dead = 0
    seen_patterns: set = set()
    for M in msgs:
        obs = observe(decode, M)
        n_calls += 1
        exp = ref.expect(M)
        if selftest and not same_expect(exp, ref.expect_slow(M)):
            raise AssertionError(f"reference shortcut differs from the plain walk for {M.hex()} on {shapes}")
        dead = all(e["dead"] for e in exp.values())
        if dead and obs[0] == "DecodeError":  # nothing can match and nothing is reported
            n_dead += 1
            continue
        res = judge(ref, M, obs, "decode", exp=exp, solo=solo_fn(ngnr, "decode", M))
        if obs[0] == "ok":
            n_ok += 1
        if res:
            for key, detail in res:
                report(part, key, case_of(shapes, ngnr, "decode", M), detail)
        if dead:
            n_dead += 1
            continue
        pk = (pattern(exp), obs[0])
        if pk not in seen_patterns:
            seen_patterns.add(pk)
            if pk[0]:
                part.add("nontrivial", digest(pk))
            for e in exp.values():
                part.add("status", e["status"])
                for c in list(e["own"].values()) + list(e["gnr"].values()):
                    part.add("classes", c[0] + (":" + c[2] if c[2] else ""))
    part.count("evaluations", n_calls)
    part.count("decode_calls", n_calls)
    part.count("decode_reports", n_ok)
    part.count("decode_errors", n_calls - n_ok)
    part.count("messages_without_any_prefix_on_them", n_dead)
    if n_dead:
        part.add("status", MUSTNOT)
        part.add("classes", "NOMATCH:prefix")
    # own encodings are attributed with the original values (MUST unless the service itself is ambiguous): the reported
    # values must be accepted by the coding object's encoder and give the same bytes again
    for svc, c, values, R in rqs:
        e = ref.expect(R)[svc]
        part.count("own_requests")
        if e["status"] == MUST and c in e["required"]:
            part.count("own_requests_must")
            kept: List[Any] = []
            observe(decode, R, keep=kept)
            part.count("evaluations")
            bad = reencode_diff(ref, kept, svc, c, R, None)
            if bad:
                report(part, "C06/own-request/reported-values-do-not-re-encode", dict(case_of(shapes, ngnr, "decode", R, None, svc), object=c),
                       f"decode({R.hex()}) ({svc}, {c}): {bad}")
    for svc, c, values, P, R in rsps:
        part.count("own_responses")
        # 4. decode_response(P, R)
        kept = []
        obs = observe(layer.decode_response, P, R, keep=kept)
        part.count("evaluations")
        part.count("decode_response_calls")
        e = ref.expect(P)[svc]
        if e["status"] == MUST:
            part.count("own_responses_must")
        for key, detail in judge(ref, P, obs, "decode_response", only=svc, via=R, solo=solo_fn(ngnr, "decode_response", P, R)):
            report(part, key, case_of(shapes, ngnr, "decode_response", P, R, svc), detail + f" [request {R.hex()} of {svc}]")
        if e["status"] == MUST and c in e["required"]:
            bad = reencode_diff(ref, kept, svc, c, P, R)
            part.count("reencoded_responses")
            if bad:
                report(part, "C06/own-response/reported-values-do-not-re-encode", dict(case_of(shapes, ngnr, "decode_response", P, R, svc), object=c),
                       f"decode_response({P.hex()}, {R.hex()}) ({svc}, {c}): {bad}")
    # 5. decode_response(P, Q) for ALL request byte strings Q up to qlen (most of them no request of any service): a
    #    service may only be reported if one of its coding objects carries its constant prefix on Q from the first byte
    if qlen:
        canon: List[bytes] = []
        canon_seen: List[Tuple[str, str, bytes]] = []
        for svc, c, values, P, R in rsps:
            if (svc, c) not in {(a, b) for a, b, _ in canon_seen}:
                canon_seen.append((svc, c, P))
                if P not in canon:
                    canon.append(P)
        dresp = layer.decode_response
        n_q = 0
        for Q in (bytes(t) for n in range(0, qlen + 1) for t in itertools.product(alpha, repeat=n)):
            for P in canon:
                obs = observe(dresp, P, Q)
                n_q += 1
                if obs[0] == "DecodeError":
                    continue
                for key, detail in judge(ref, P, obs, "decode_response", only="-"):
                    report(part, key, case_of(shapes, ngnr, "decode_response", P, Q, "-"), detail + f" [request string {Q.hex()}]")
                if obs[0] == "ok":
                    part.count("foreign_request_reports")
                    for key, detail in via_check(ref, P, Q, obs):
                        report(part, key, case_of(shapes, ngnr, "decode_response", P, Q, "-"), detail)
        part.count("evaluations", n_q)
        part.count("decode_response_arbitrary_request_calls", n_q)


# ---------------------------------------------------------------------------------------------
# call sequences: the result of a call does not depend on the calls made before on the same layer object
# ---------------------------------------------------------------------------------------------
Op = Tuple[str, bytes, Optional[bytes]]


def seq_mode(nservices: int, ngnr: int, quick: bool, shapes: Optional[Tuple[str, ...]] = None) -> int:
    """ops per service for the call-sequence exploration of a layer (0 = none); of the layers with 3 services only
    one order per service set is taken (the order only permutes the candidates of a lookup)"""
    if nservices == 3 and shapes is not None and list(shapes) != sorted(shapes, key=list(SHAPES).index):
        return 0
    if nservices <= 2:
        if not quick:
            return 3
        return (3 if nservices == 1 else 2) if ngnr == 0 else 0
    return 2 if (not quick and ngnr == 0) else 0


def seq_ops(ref: refdispatch.RefLayer, per_service: int) -> List[Op]:
    """per service: decode(R), decode_response(P, R), decode(P) with R = the request encoding for the SECOND value of
    the alphabets (01 / 0102: collides with the nested constants), P = its first response made for R"""
    ops: List[Op] = []
    for s in ref.svcs:
        va = value_assignments(ref, s["request"], VALUES)
        R = ref.encode(s["request"], va[min(1, len(va) - 1)])
        P = None
        for c in list(s.get("pos", [])) + list(s.get("neg", [])):
            try:
                P = ref.encode(c, value_assignments(ref, c, RESP_VALUES)[0], R)
                break
            except refdispatch.Envelope:
                continue
        cand: List[Op] = [("decode", R, None)]
        if P is not None:
            cand += [("decode_response", P, R), ("decode", P, None)]
        for op in cand[:per_service]:
            if op not in ops:
                ops.append(op)
    return ops


def run_op(layer: Any, op: Op) -> Tuple[str, Any]:
    api, M, R = op
    obs = observe(layer.decode, M) if api == "decode" else observe(layer.decode_response, M, R)
    if obs[0] != "ok":
        return (obs[0], None)  # (the text of an error may list candidates; only the kind is compared)
    return ("ok", [(s, c, dict(pd)) for s, c, pd in obs[1]])


def history_diff(op: Op, fresh: Tuple[str, Any], got: Tuple[str, Any]) -> Optional[Tuple[str, str]]:
    if fresh == got:
        return None
    call = f"{op[0]}({op[1].hex()}" + (f", {op[2].hex()})" if op[2] is not None else ")")

    def show(o: Tuple[str, Any]) -> str:
        return o[0] if o[0] != "ok" else str([(s, c) for s, c, _ in o[1]])
    if fresh[0] != got[0]:
        return "C06/history/outcome-kind-differs", f"{call}: first call on a fresh layer: {show(fresh)}; after earlier calls: {show(got)}"
    if {(s, c) for s, c, _ in fresh[1]} == {(s, c) for s, c, _ in got[1]} and sorted(map(repr, fresh[1])) != sorted(map(repr, got[1])):
        return "C06/history/number-of-interpretations-differs", f"{call}: first call on a fresh layer: {show(fresh)}; after earlier calls: {show(got)}"
    if {(s, c) for s, c, _ in fresh[1]} != {(s, c) for s, c, _ in got[1]}:
        return "C06/history/reported-services-differ", f"{call}: first call on a fresh layer: {show(fresh)}; after earlier calls: {show(got)}"
    return "C06/history/result-differs", f"{call}: first call on a fresh layer: {fresh[1]}; after earlier calls: {got[1]}"


def fresh_layers(shapes: List[str], ngnr: int, n: int) -> Any:
    """generator of n freshly loaded, never used layer objects of the same description"""
    batch = 200
    for start in range(0, n, batch):
        k = min(batch, n - start)
        db, specs = build([(tuple(shapes), ngnr)] * k)
        for spec in specs:
            yield db.diag_layers[spec["name"]]


def seq_case(shapes: List[str], ngnr: int, calls: List[Op], at: int) -> Dict[str, Any]:
    return {"services": list(shapes), "gnrs": ngnr, "op": "sequence", "at": at, "msg": "".join(c[1].hex() for c in calls[:at + 1]),
            "calls": [[c[0], c[1].hex(), None if c[2] is None else c[2].hex()] for c in calls[:at + 1]]}


def check_sequences(ref: refdispatch.RefLayer, shapes: List[str], ngnr: int, per_service: int, part: Part) -> None:
    ops = seq_ops(ref, per_service)
    n = len(ops)
    layers = fresh_layers(shapes, ngnr, n + n ** 3)
    fresh = {op: run_op(next(layers), op) for op in ops}
    part.count("sequence_layers")
    for seq in itertools.product(ops, repeat=3):
        layer = next(layers)
        part.count("call_sequences")
        for i, op in enumerate(seq):
            got = run_op(layer, op)
            part.count("evaluations")
            part.count("sequence_calls")
            d = history_diff(op, fresh[op], got)
            if d is not None:
                report(part, d[0], seq_case(shapes, ngnr, list(seq), i), d[1] + f"; calls so far: {[(c[0], c[1].hex()) for c in seq[:i]]}")
                break
    if any(o[0] == "ok" and len(o[1]) > 1 for o in fresh.values()):
        part.count("sequence_layers_with_shared_messages")


# ---------------------------------------------------------------------------------------------
# edit + Database.refresh(): the dispatch structures of every kind of layer follow the description
# ---------------------------------------------------------------------------------------------
KINDS = ["BASE-VARIANT", "ECU-VARIANT", "FUNCTIONAL-GROUP", "PROTOCOL", "ECU-SHARED-DATA", "EV-inherits-BV"]
REFRESH_ALPHABET = ["S10", "S10b", "S1001", "S22w", "S22F190"]  # (first parameter of request and response: 8-bit CODED-CONST)
EDITS = ["drop-last", "move-first", "drop-last+move-first"]
NEW_SID, NEW_RSID = 0x11, 0x51


def refresh_confs(quick: bool) -> List[Tuple[Tuple[str, ...], int, str, str]]:
    sets = [t for n in (1, 2) for t in itertools.permutations(REFRESH_ALPHABET, n)]
    return [(t, g, k, e) for t in sets for g in ((0, 1) if quick else (0, 1, 2)) for k in KINDS for e in EDITS]


def kind_db(spec: Dict[str, Any], kind: str) -> Tuple[Dict[str, Any], str, str]:
    """-> (database spec, name of the layer that holds the services, name of the layer that is observed)"""
    l = copy.deepcopy(spec)
    if kind == "EV-inherits-BV":
        l["name"] = "P0"
        l["type"] = "BASE-VARIANT"
        child = {"type": "ECU-VARIANT", "name": "L0", "parents": [{"layer": "P0"}]}
        return {"containers": [{"name": "C", "layers": [l, child]}]}, "P0", "L0"
    l["type"] = kind
    db: Dict[str, Any] = {"containers": [{"name": "C", "layers": [l]}]}
    if kind == "PROTOCOL":
        l["comparam_spec"] = "CS"
        db["comparam_specs"] = [{"name": "CS", "prot_stacks": []}]
    return db, l["name"], l["name"]


def edited_spec(spec: Dict[str, Any], edit: str) -> Dict[str, Any]:
    s2 = copy.deepcopy(spec)
    if "move-first" in edit:
        first = s2["svcs"][0]
        for m in s2["msgs"]:
            if m["name"] == first["request"]:
                m["params"][0]["value"] = NEW_SID
            elif m["name"] == first["pos"][0]:
                m["params"][0]["value"] = NEW_RSID
    if "drop-last" in edit:
        s2["svcs"].pop()
    return s2


def apply_edit(db: Any, holder: str, spec: Dict[str, Any], edit: str) -> None:
    """the same edit on the loaded objects, followed by Database.refresh()"""
    layer = db.diag_layers[holder]
    if "move-first" in edit:
        svc = layer.services[spec["svcs"][0]["name"]]
        svc.request.parameters[0].coded_value = NEW_SID
        svc.positive_responses[0].parameters[0].coded_value = NEW_RSID
    if "drop-last" in edit:
        last = spec["svcs"][-1]["name"]
        raw = layer.diag_layer_raw
        raw.diag_comms_raw[:] = [dc for dc in raw.diag_comms_raw if getattr(dc, "short_name", None) != last]
    db.refresh()


def refresh_messages(ref1: refdispatch.RefLayer, ref2: refdispatch.RefLayer, maxlen: int) -> Tuple[List[bytes], List[Tuple[str, bytes, bytes]]]:
    alpha = sorted(set(byte_alphabet(ref1)) | set(byte_alphabet(ref2)))
    msgs = {bytes(t) for n in range(0, maxlen + 1) for t in itertools.product(alpha, repeat=n)}
    pairs: List[Tuple[str, bytes, bytes]] = []
    for ref in (ref1, ref2):
        rqs, rsps = own_messages(ref)
        msgs.update(R for _, _, _, R in rqs)
        msgs.update(P for _, _, _, P, _ in rsps)
        if ref is ref2:
            pairs = sorted({(svc, P, R) for svc, _, _, P, R in rsps})
    return sorted(msgs), pairs


def refresh_case(shapes: Tuple[str, ...], ngnr: int, kind: str, edit: str, what: str, M: bytes, R: Optional[bytes] = None,
                 only: Optional[str] = None) -> Dict[str, Any]:
    c = case_of(list(shapes), ngnr, "refresh", M, R, only)
    c.update({"kind": kind, "edit": edit, "check": what})
    return c


def check_refresh(conf: Tuple[Tuple[str, ...], int, str, str], maxlen: int, part: Part, only_case: Optional[Dict[str, Any]] = None) -> None:
    shapes, ngnr, kind, edit = conf
    spec1 = layer_spec("L0", list(shapes), ngnr)
    spec2 = edited_spec(spec1, edit)
    ref1, ref2 = refdispatch.RefLayer(spec1), refdispatch.RefLayer(spec2)
    dbspec, holder, seen = kind_db(spec1, kind)
    db = emit.load_db(dbspec)
    msgs, pairs = refresh_messages(ref1, ref2, maxlen)
    tag = f"C06/refresh/{kind}"
    part.count("refresh_runs")
    # 1. use the freshly loaded layer (fills its caches); its answers are judged like everywhere else
    layer = db.diag_layers[seen]
    for M in msgs:
        obs = observe(layer.decode, M)
        part.count("evaluations")
        for key, detail in judge(ref1, M, obs, "decode"):
            report(part, key.replace("C06/", tag + "/before-edit/", 1), refresh_case(shapes, ngnr, kind, edit, "before", M), detail)
    bad = groups_diff(layer, ref1)
    if bad:
        report(part, tag + "/before-edit/service_groups-differs", refresh_case(shapes, ngnr, kind, edit, "groups-before", b""), bad)
    # 2. edit the description, refresh
    try:
        apply_edit(db, holder, spec1, edit)
    except Exception as ex:  # noqa
        report(part, f"{tag}/refresh-raises-{type(ex).__name__}", refresh_case(shapes, ngnr, kind, edit, "refresh", b""), str(ex)[:200])
        return
    layer = db.diag_layers[seen]
    # 3. a database freshly loaded from the edited description
    dbspec2, _, seen2 = kind_db(spec2, kind)
    fresh = emit.load_db(dbspec2).diag_layers[seen2]
    for M in msgs:
        got, want = run_op(layer, ("decode", M, None)), run_op(fresh, ("decode", M, None))
        part.count("evaluations")
        part.count("refresh_calls")
        if got != want:
            report(part, tag + "/decode-differs-from-fresh-database", refresh_case(shapes, ngnr, kind, edit, "decode", M),
                   f"{kind} layer, services {list(shapes)}, edit {edit}, refresh(): decode({M.hex()}) -> {got[0]} "
                   f"{[(s, c) for s, c, _ in got[1]] if got[1] else ''}; freshly loaded edited description: {want[0]} "
                   f"{[(s, c) for s, c, _ in want[1]] if want[1] else ''}")
        obs = observe(layer.decode, M)
        for key, detail in judge(ref2, M, obs, "decode"):
            report(part, key.replace("C06/", tag + "/after-refresh/", 1), refresh_case(shapes, ngnr, kind, edit, "after", M), detail)
    for svc, P, R in pairs:
        got, want = run_op(layer, ("decode_response", P, R)), run_op(fresh, ("decode_response", P, R))
        part.count("evaluations")
        part.count("refresh_calls")
        if got != want:
            report(part, tag + "/decode_response-differs-from-fresh-database", refresh_case(shapes, ngnr, kind, edit, "decode_response", P, R, svc),
                   f"{kind} layer, services {list(shapes)}, edit {edit}, refresh(): decode_response({P.hex()}, {R.hex()}) -> {got}; fresh: {want}")
    bad = groups_diff(layer, ref2)
    part.count("evaluations")
    if bad:
        report(part, tag + "/service_groups-stale", refresh_case(shapes, ngnr, kind, edit, "groups", b""), f"edit {edit}, refresh(): " + bad)
    part.add("refresh_kinds", kind)
    part.add("refresh_edits", edit)


def refresh_unit_fn(unit: Tuple[str, int, List[Tuple[Tuple[str, ...], int, str, str]]]) -> Part:
    _, maxlen, confs = unit
    part = Part()
    import odxtools.exceptions as oe
    oe.strict_mode = True
    with warnings.catch_warnings():
        warnings.simplefilter("ignore")
        for conf in confs:
            check_refresh(conf, maxlen, part)
    shutil.rmtree(emit.scratch_dir(), ignore_errors=True)
    return part


# ---------------------------------------------------------------------------------------------
# inheritance: a PARENT-REF may exclude global negative responses of the parent (NOT-INHERITED-GLOBAL-NEG-RESPONSES)
# ---------------------------------------------------------------------------------------------
INH_ALPHABET = ["S10b", "S1001b", "S10w", "S22F1"]  # (with and without own negative responses)
EXCLUSIONS: List[Tuple[str, ...]] = [(), ("gnr1",), ("gnr2",), ("gnr1", "gnr2")]


def inherit_confs() -> List[Tuple[Tuple[str, ...], Tuple[str, ...]]]:
    sets = [t for n in (1, 2) for t in itertools.permutations(INH_ALPHABET, n)]
    return [(t, ex) for t in sets for ex in EXCLUSIONS]


def inherit_layers(shapes: Tuple[str, ...], excluded: Tuple[str, ...]) -> Tuple[Any, Any, refdispatch.RefLayer, refdispatch.RefLayer]:
    """base variant P0 (the services + gnr1 + gnr2) and ECU variant L0 inheriting from it without `excluded`
    -> (parent layer, child layer, reference of the parent, reference of the child)"""
    spec = layer_spec("P0", list(shapes), 2)
    child = {"type": "ECU-VARIANT", "name": "L0", "parents": [{"layer": "P0", "not_inherited": {"gnrs": list(excluded)}}]}
    db = emit.load_db({"containers": [{"name": "C", "layers": [spec, child]}]})
    cspec = dict(spec, msgs=[m for m in spec["msgs"] if m["name"] not in excluded])
    return db.diag_layers["P0"], db.diag_layers["L0"], refdispatch.RefLayer(spec), refdispatch.RefLayer(cspec)


def inherit_case(shapes: Tuple[str, ...], excluded: Tuple[str, ...], who: str, M: bytes) -> Dict[str, Any]:
    return {"services": list(shapes), "gnrs": 2, "op": "inherit", "excluded": list(excluded), "layer": who, "msg": M.hex()}


def check_inherit(conf: Tuple[Tuple[str, ...], Tuple[str, ...]], maxlen: int, part: Part, only: Optional[Tuple[str, bytes]] = None) -> None:
    shapes, excluded = conf
    parent, child, pref, cref = inherit_layers(shapes, excluded)
    part.count("inherit_runs")
    part.add("exclusions", "+".join(excluded) or "-")
    alpha = byte_alphabet(pref)
    msgs = {bytes(t) for n in range(0, maxlen + 1) for t in itertools.product(alpha, repeat=n)}
    rqs, rsps = own_messages(pref)
    msgs.update(R for _, _, _, R in rqs)
    msgs.update(P for _, _, _, P, _ in rsps)
    for who, layer, ref in (("child", child, cref), ("parent", parent, pref)):
        for M in (sorted(msgs) if only is None else [only[1]]):
            if only is not None and only[0] != who:
                continue
            obs = observe(layer.decode, M)
            part.count("evaluations")
            part.count("inherit_calls")
            if who == "child" and excluded and obs[0] == "DecodeError" and any(e["status"] == MUST for e in pref.expect(M).values()):
                part.count("messages_only_an_excluded_gnr_interprets")
            for key, detail in judge(ref, M, obs, "decode"):
                report(part, key.replace("C06/", f"C06/inherit/{who}/", 1), inherit_case(shapes, excluded, who, M),
                       f"ECU variant inheriting {list(shapes)} + gnr1, gnr2 from a base variant, NOT-INHERITED-GLOBAL-NEG-RESPONSES {list(excluded)}; "
                       f"{who} layer: " + detail)


def inherit_unit_fn(unit: Tuple[str, int, List[Tuple[Tuple[str, ...], Tuple[str, ...]]]]) -> Part:
    _, maxlen, confs = unit
    part = Part()
    import odxtools.exceptions as oe
    oe.strict_mode = True
    with warnings.catch_warnings():
        warnings.simplefilter("ignore")
        for conf in confs:
            check_inherit(conf, maxlen, part)
    shutil.rmtree(emit.scratch_dir(), ignore_errors=True)
    return part


def any_unit_fn(unit: Any) -> Part:
    if unit[0] == "inherit":
        return inherit_unit_fn(unit)
    return refresh_unit_fn(unit) if unit[0] == "refresh" else unit_fn(unit)


def same_expect(a: Dict[str, Dict[str, Any]], b: Dict[str, Dict[str, Any]]) -> bool:
    keys = ("status", "own", "gnr", "required", "ambiguous")
    return set(a) == set(b) and all(a[s][k] == b[s][k] for s in a for k in keys)


def groups_diff(layer: Any, ref: refdispatch.RefLayer) -> str:
    try:
        sg = layer.service_groups
        for sid in range(256):
            got = sorted(s.short_name for s in sg[sid])
            want = sorted(ref.group(sid))
            if got != want:
                return f"service_groups[0x{sid:02x}] = {got}, services whose request starts with that byte: {want}"
    except Exception as ex:  # noqa
        return f"service_groups raises {type(ex).__name__}: {str(ex)[:150]}"
    return ""


# ---------------------------------------------------------------------------------------------
# units
# ---------------------------------------------------------------------------------------------
CAND = "__cand__"


HISTORY_KEY = "C06/history/violation-only-after-earlier-calls"
_LAYER_CTX: Dict[str, Any] = {}  # (maxlen, qlen) of the layer being explored: what a history witness has to re-run


def report(part: Part, key: str, case: Dict[str, Any], detail: str) -> None:
    """part.violation + remember the canonical (simplest, then lexicographically first) case of the key, so that
    the recorded witness does not depend on the order in which workers finish (mcx keeps the first of equal size).
    A single decode / decode_response case that would become the witness is first re-executed on a FRESH layer object
    (that is what a replay does); if it does not show the violation there, the violation exists only after the earlier
    calls on the explored object and is reported as such, with the whole layer exploration as its case."""
    j = jdump(case)
    # simplest first: no global negative responses, few services, no empty-prefix service, short message
    rank = (case["gnrs"], len(case["services"]), "Eb" in case["services"], len(case["msg"]), len(j))
    cand = (rank, j, detail)
    best = part.sets.get(CAND + key)
    if best and not cand[:2] < next(iter(best))[:2]:
        part.nviol += 1  # (a witness at least as simple is already recorded)
        return
    if case["op"] in ("decode", "decode_response") and key != HISTORY_KEY and not _LAYER_CTX.get("replaying"):
        _LAYER_CTX["replaying"] = True
        try:
            again = [k for k, _ in replay(case)]
        finally:
            _LAYER_CTX["replaying"] = False
        if key not in again:
            hcase = {"services": case["services"], "gnrs": case["gnrs"], "op": "layer", "msg": "",
                     "maxlen": _LAYER_CTX.get("maxlen", 3), "qlen": _LAYER_CTX.get("qlen", 0)}
            report(part, HISTORY_KEY, hcase, f"[{key}] only after earlier calls on the same layer object, not on a fresh one: {detail}")
            return
    part.violation(key, case, detail)
    part.sets[CAND + key] = {cand}


def canonical_witnesses(ctx: Ctx) -> None:
    for name in [n for n in ctx.sets if n.startswith(CAND)]:
        key = name[len(CAND):]
        rank, j, detail = min(ctx.sets.pop(name))
        if key in ctx.viol:
            ctx.viol[key] = (len(j), json.loads(j), detail)


def service_sets(maxsize: int) -> List[Tuple[str, ...]]:
    out: List[Tuple[str, ...]] = []
    for n in range(1, maxsize + 1):
        out.extend(itertools.permutations(SHAPE_NAMES, n))
    return out


def wide_sets(maxsize: int) -> List[Tuple[str, ...]]:
    """all ordered sets over the second alphabet that contain at least one of its new shapes"""
    out: List[Tuple[str, ...]] = []
    for n in range(1, maxsize + 1):
        out.extend(t for t in itertools.permutations(WIDE_ALPHABET, n) if set(t) & set(WIDE_NAMES))
    return out


def pc_sets(maxsize: int) -> List[Tuple[str, ...]]:
    """all ordered sets over the third alphabet that contain at least one PHYS-CONST shape"""
    out: List[Tuple[str, ...]] = []
    for n in range(1, maxsize + 1):
        out.extend(t for t in itertools.permutations(PC_ALPHABET, n) if set(t) & set(PC_NAMES))
    return out


def gap_sets(maxsize: int) -> List[Tuple[str, ...]]:
    """all ordered sets over the fourth alphabet that contain at least one gap shape"""
    out: List[Tuple[str, ...]] = []
    for n in range(1, maxsize + 1):
        out.extend(t for t in itertools.permutations(GAP_ALPHABET, n) if set(t) & set(GAP_NAMES))
    return out


def empty_confs(maxsize: int) -> List[Tuple[Tuple[str, ...], int]]:
    """all ordered sets over the fifth alphabet: those with an empty request / response with 0..2 GNRs, all of them with the
    empty GNR (configuration 3)"""
    out: List[Tuple[Tuple[str, ...], int]] = []
    for n in range(1, maxsize + 1):
        for t in itertools.permutations(EMPTY_ALPHABET, n):
            if set(t) & set(EMPTY_NAMES):
                out.extend((t, g) for g in (0, 1, 2))
            out.append((t, 3))
    return out


def mm_sets(maxsize: int) -> List[Tuple[str, ...]]:
    """all ordered sets over the sixth alphabet that contain at least one MIN-MAX-LENGTH shape"""
    out: List[Tuple[str, ...]] = []
    for n in range(1, maxsize + 1):
        out.extend(t for t in itertools.permutations(MM_ALPHABET, n) if set(t) & set(MM_NAMES))
    return out


def build(confs: List[Tuple[Tuple[str, ...], int]]) -> Tuple[Any, List[Dict[str, Any]]]:
    specs = [layer_spec(f"L{i}", list(shapes), ngnr) for i, (shapes, ngnr) in enumerate(confs)]
    db = emit.load_db({"containers": [{"name": "C", "layers": specs}]})
    return db, specs


def unit_fn(unit: Tuple[int, List[Tuple[Tuple[str, ...], int]], bool, bool]) -> Part:
    maxlen, confs, selftest, quick = unit
    part = Part()
    import odxtools.exceptions as oe
    oe.strict_mode = True
    with warnings.catch_warnings():
        warnings.simplefilter("ignore")
        db, specs = build(confs)
        for i, ((shapes, ngnr), spec) in enumerate(zip(confs, specs)):
            layer = db.diag_layers[spec["name"]]
            ref = refdispatch.RefLayer(spec)
            # (the shortcuts of the reference are compared with its plain walk on the first layer of the self-test units)
            check_layer(layer, ref, list(shapes), ngnr, maxlen, part, selftest=(selftest and i == 0),
                        qlen=request_string_length(len(shapes), ngnr, quick))
            if selftest and i == 0:
                part.count("reference_selftest_layers")
            mode = seq_mode(len(shapes), ngnr, quick, tuple(shapes))
            if mode and not any(k.startswith("C06/prefix-tree/") for k in part.viol):
                check_sequences(ref, list(shapes), ngnr, mode, part)
            for sh in shapes:
                part.add("shapes", sh)
            part.add("gnr_configs", ngnr)
    # (pool workers do not run atexit handlers: remove this process' scratch directory now; it is re-created on demand)
    shutil.rmtree(emit.scratch_dir(), ignore_errors=True)
    return part


SAMPLES = [(("S10b", "S10w"), 0, "decode", "100304", None), (("S1001", "S1002", "S10b"), 1, "decode", "7f1031", None),
           (("S22w", "S22F190", "S22F1"), 2, "decode", "62f19000", None), (("S10bc", "S1001b"), 0, "decode", "100103", None),
           (("S1001", "S10b"), 0, "decode_response", "5001", "1001"), (("S22F190", "S1001b", "S10w"), 2, "decode", "7f2212", None)]


def samples(ctx: Ctx) -> None:
    """a few real cases (fixed list, evaluated in the master so that the evidence does not depend on the seed)"""
    with warnings.catch_warnings():
        warnings.simplefilter("ignore")
        for shapes, ngnr, op, m, r in SAMPLES:
            db, specs = build([(shapes, ngnr)])
            layer = db.diag_layers[specs[0]["name"]]
            ref = refdispatch.RefLayer(specs[0])
            M = bytes.fromhex(m)
            try:
                layer._prefix_tree  # noqa
                obs = observe(layer.decode, M) if op == "decode" else observe(layer.decode_response, M, bytes.fromhex(r))
            except Exception as ex:  # noqa
                obs = ("exc:" + type(ex).__name__, str(ex)[:100])
            exp = ref.expect(M)
            ctx.sample({"services": list(shapes), "gnrs": ngnr, "op": op, "msg": m, "request": r,
                        "byte_alphabet": [f"{b:02x}" for b in byte_alphabet(ref)],
                        "reference": {s: {"status": e["status"], "objects": {o: c[0] for o, c in list(e["own"].items()) + list(e["gnr"].items()) if c[0] != NOMATCH}}
                                      for s, e in exp.items()},
                        "odxtools": show_obs(obs)})


def run(ctx: Ctx) -> None:
    maxset = 2 if ctx.quick else 3
    maxlen = 3 if ctx.quick else 4
    sets = service_sets(maxset) + wide_sets(maxset) + pc_sets(maxset) + gap_sets(maxset) + mm_sets(maxset)
    confs = [(s, g) for s in sets for g in (0, 1, 2)] + empty_confs(maxset)
    # big layers first, chunks sized by expected work (alphabet^maxlen grows with the number of services)
    confs.sort(key=lambda c: (-len(c[0]), c[1], c[0]))
    units: List[Tuple[int, List[Tuple[Tuple[str, ...], int]], bool, bool]] = []
    chunk = {1: 36, 2: 6, 3: 8} if ctx.quick else {1: 36, 2: 8, 3: 4}
    i = 0
    while i < len(confs):
        n = chunk[len(confs[i][0])]
        # (reference self-test on the first layer of every unit (quick) / every 5th unit (thorough))
        units.append((maxlen, confs[i:i + n], ctx.quick or len(units) % 5 == 0, ctx.quick))
        i += n
    ctx.bounds = {"service_shapes": SHAPE_NAMES, "services_per_layer": f"1..{maxset} (all ordered sets)",
                  "second_alphabet": {"shapes": WIDE_ALPHABET, "sets": f"all ordered sets of 1..{maxset} containing one of {WIDE_NAMES}",
                                      "what": "leading constant = one 16 / 24 bit CODED-CONST, 4+4 and 4+12 bit splits"},
                  "third_alphabet": {"shapes": PC_ALPHABET, "sets": f"all ordered sets of 1..{maxset} containing one of {PC_NAMES}",
                                     "what": "siblings with the same SID told apart by a PHYS-CONST identifier, echoed by the responses"},
                  "fourth_alphabet": {"shapes": GAP_ALPHABET, "sets": f"all ordered sets of 1..{maxset} containing one of {GAP_NAMES}",
                                      "what": "a variable byte / nibble between two constants, listed after them (prefix ends at the gap)"},
                  "fifth_alphabet": {"shapes": EMPTY_ALPHABET, "what": "a positive response / a request without any parameter; GNR configuration 3 = "
                                     "a global negative response without any parameter (with every ordered set of this alphabet)"},
                  "sixth_alphabet": {"shapes": MM_ALPHABET, "what": "last parameter of request and response = MIN-MAX-LENGTH constant (ZERO, HEX-FF, END-OF-PDU)"},
                  "call_sequences": "all sequences of 3 calls over the op alphabet of a layer (per service: decode(request), decode(response), "
                                    "decode_response(response, request)), each sequence on its own freshly loaded layer object; "
                                    + ("layers with <= 2 services and no GNR (2 ops per service for 2 services)" if ctx.quick else
                                       "layers with <= 2 services; layers with 3 services and no GNR (one order per service set) with 2 ops per service"),
                  "global_negative_responses": "0, 1 (with MATCHING-REQUEST-PARAM), 2 (second one without)",
                  "layers": len(confs), "message_length": f"all byte strings of length 0..{maxlen} over the layer's constants + 00, FF",
                  "own_encodings": {"request u8": VALUES["u8"], "request u16": VALUES["u16"], "response u8": RESP_VALUES["u8"], "nrc": "every listed value"},
                  "units": len(units)}
    ctx.rule = ("evaluation = one DiagLayer.decode / decode_response / service_groups comparison; non-trivial = distinct "
                "(set of (service shape, coding object, MATCH|MAYBE) that carry their prefix on the message, outcome kind), "
                "only messages on which at least one coding object is not NOMATCH")
    ctx.assumptions = [
        "a service with two own coding objects that are not excluded for M is DON'T-CARE (odxtools refuses 'cannot uniquely decode' by design)",
        "trailing bytes after a complete message, a differing CODED-CONST behind the constant prefix and a MATCHING-REQUEST-PARAM "
        "outside/straddling the constant prefix that differs from the request constants are MAY",
        "a global negative response is MAY for a service whose own response already matches (odxtools tries them only if the service fails)",
        "multiplicity of reported Messages is DON'T-CARE (compared as sets of (service, coding object))",
        "decode_response: only the service that was asked is demanded; other reported services are only checked against MUST-NOT",
        "call sequences: results are compared exactly (order, multiplicity, values) with the first call on a fresh layer object; "
        "for errors only the kind is compared",
        "edit + refresh: the refreshed layer is compared exactly with a database freshly loaded from the edited description, and judged by the reference",
        "decode_response with a request string that is no request: a service may be reported iff one of its coding objects (or a GNR) has its "
        "constant prefix at the start of the request string (that responses' prefixes count too is DON'T-CARE); errors are always allowed",
        "original values: the reported param_dict (without NRC-CONST values) must be accepted by the coding object's encoder and give the message again",
        "descriptions: whole-byte A_UINT32 constants/values, IDENTICAL compu methods; a request without any parameter is not in the alphabet",
    ]
    rconfs = refresh_confs(ctx.quick)
    runits: List[Any] = [("refresh", 2 if ctx.quick else 3, rconfs[i:i + 30]) for i in range(0, len(rconfs), 30)]
    ctx.bounds["refresh"] = {"layer_kinds": KINDS, "edits": EDITS, "service_sets": f"all ordered sets of 1..2 of {REFRESH_ALPHABET}",
                             "gnrs": "0, 1" if ctx.quick else "0, 1, 2", "runs": len(rconfs),
                             "messages": f"all byte strings of length <= {2 if ctx.quick else 3} over the constants of the old and the edited description + their own encodings"}
    iconfs = inherit_confs()
    iunits: List[Any] = [("inherit", 3 if ctx.quick else 4, iconfs[i:i + 4]) for i in range(0, len(iconfs), 4)]
    ctx.bounds["inheritance"] = {"what": "ECU variant inheriting services + gnr1 + gnr2 from a base variant; its PARENT-REF excludes "
                                 "none / gnr1 / gnr2 / both (NOT-INHERITED-GLOBAL-NEG-RESPONSES); child and parent are judged",
                                 "service_sets": f"all ordered sets of 1..2 of {INH_ALPHABET}", "runs": len(iconfs),
                                 "messages": f"all byte strings of length <= {3 if ctx.quick else 4} over the layer's constants + own encodings"}
    pmap(ctx, any_unit_fn, units + runits + iunits)
    canonical_witnesses(ctx)
    samples(ctx)
    ctx.counts["traces_validated_against_impl"] = ctx.counts.get("decode_calls", 0) + ctx.counts.get("decode_response_calls", 0)
    ctx.counts["states"] = ctx.counts.get("layers", 0)
    ctx.counts["transitions"] = ctx.counts.get("evaluations", 0)
    ctx.guard("every service shape used", ctx.sets.get("shapes", set()) == set(SHAPE_NAMES) | set(WIDE_NAMES) | set(PC_NAMES) | set(GAP_ALPHABET) | set(EMPTY_NAMES) | set(MM_ALPHABET))
    ctx.guard("all four GNR configurations used", ctx.sets.get("gnr_configs", set()) == {0, 1, 2, 3})
    ctx.guard("decode both reported and refused messages", ctx.counts.get("decode_reports", 0) > 100 and ctx.counts.get("decode_errors", 0) > 100)
    ctx.guard("MUST, MAY and MUST-NOT services all seen", ctx.sets.get("status", set()) == {MUST, MAY, MUSTNOT})
    ctx.guard("MATCH, MAYBE (trailing, constant, echo) and NOMATCH (prefix, short, nrc) objects all seen",
              {"MATCH", "NOMATCH:prefix", "NOMATCH:short", "NOMATCH:nrc", "MAYBE:trailing bytes",
               "MAYBE:coded constant behind the prefix differs"} <= ctx.sets.get("classes", set()))
    ctx.guard("own responses demanded through their request > 100", ctx.counts.get("own_responses_must", 0) > 100)
    ctx.guard("call sequences explored > 1000, on layers whose services share messages too",
              ctx.counts.get("call_sequences", 0) > 1000 and ctx.counts.get("sequence_layers_with_shared_messages", 0) > 10)
    ctx.guard("edit + refresh explored on every layer kind with every edit",
              ctx.sets.get("refresh_kinds", set()) == set(KINDS) and ctx.sets.get("refresh_edits", set()) == set(EDITS))
    ctx.guard("decode_response with arbitrary request strings: > 10000 calls, > 100 of them reported something",
              ctx.counts.get("decode_response_arbitrary_request_calls", 0) > 10000 and ctx.counts.get("foreign_request_reports", 0) > 100)
    ctx.guard("own responses re-encoded from their reported values > 100", ctx.counts.get("reencoded_responses", 0) > 100)
    ctx.guard("inheritance: every exclusion explored and > 50 messages seen that only an excluded GNR interprets",
              ctx.sets.get("exclusions", set()) == {"-", "gnr1", "gnr2", "gnr1+gnr2"} and ctx.counts.get("messages_only_an_excluded_gnr_interprets", 0) > 50)
    ctx.guard("own requests demanded > 100", ctx.counts.get("own_requests_must", 0) > 100)


def replay(case: Any) -> List[Tuple[str, str]]:
    import odxtools.exceptions as oe
    oe.strict_mode = True
    shapes, ngnr = list(case["services"]), int(case["gnrs"])
    out: List[Tuple[str, str]] = []
    with warnings.catch_warnings():
        warnings.simplefilter("ignore")
        db, specs = build([(tuple(shapes), ngnr)])
        layer = db.diag_layers[specs[0]["name"]]
        ref = refdispatch.RefLayer(specs[0])
        try:
            layer._prefix_tree  # noqa
        except Exception as ex:  # noqa
            return [(f"C06/prefix-tree/raises-{type(ex).__name__}", str(ex)[:200])]
        if case["op"] == "inherit":
            part = Part()
            check_inherit((tuple(shapes), tuple(case["excluded"])), 0, part, only=(case["layer"], bytes.fromhex(case["msg"])))
            return [(k, v[2]) for k, v in part.viol.items()]
        if case["op"] == "layer":
            part = Part()
            check_layer(layer, ref, shapes, ngnr, int(case["maxlen"]), part, qlen=int(case["qlen"]))
            return [(k, v[2]) for k, v in part.viol.items() if k == HISTORY_KEY]
        if case["op"] == "refresh":
            part = Part()
            check_refresh((tuple(shapes), ngnr, case["kind"], case["edit"]), max(2, len(case["msg"]) // 2), part)
            return [(k, v[2]) for k, v in part.viol.items()]
        if case["op"] == "sequence":
            calls: List[Op] = [(a, bytes.fromhex(m), None if r is None else bytes.fromhex(r)) for a, m, r in case["calls"]]
            layers = fresh_layers(shapes, ngnr, 2)
            used, fresh_layer = next(layers), next(layers)
            got = None
            for op in calls:
                got = run_op(used, op)
            d = history_diff(calls[-1], run_op(fresh_layer, calls[-1]), got)
            return [d] if d else []
        M = bytes.fromhex(case["msg"])
        if case["op"] == "groups":
            bad = groups_diff(layer, ref)
            return [("C06/service_groups/differs", bad)] if bad else []
        kept: List[Any] = []
        if case["op"] == "decode":
            out = judge(ref, M, observe(layer.decode, M, keep=kept), "decode", solo=solo_fn(ngnr, "decode", M))
            if case.get("object"):
                bad = reencode_diff(ref, kept, case["service"], case["object"], M, None)
                if bad:
                    out.append(("C06/own-request/reported-values-do-not-re-encode", bad))
            return out
        if case["op"] == "decode_response":
            R = bytes.fromhex(case["request"])
            obs = observe(layer.decode_response, M, R, keep=kept)
            out = judge(ref, M, obs, "decode_response", only=case.get("service"), via=R, solo=solo_fn(ngnr, "decode_response", M, R))
            if case.get("service") == "-":
                out += via_check(ref, M, R, obs)
            if case.get("object"):
                bad = reencode_diff(ref, kept, case["service"], case["object"], M, R)
                if bad:
                    out.append(("C06/own-response/reported-values-do-not-re-encode", bad))
            return out
    return out
