"""C13 -- malformed or lossy CAN traffic never crashes the ISO-TP reassembler or fabricates telegrams.

(a) deviation-bounded fault enumeration: base streams x every placement of 0, 1, 2 faults (9 kinds), then a
    well-formed probe transfer;  (b) explicit-state BFS over ALL frame sequences up to a depth bound over a
    16-frame alphabet, states deduplicated on (real per-ID state, monitor state), probe after every state.
Oracle: refisotp.Monitor (justification search), no exception, probe reassembled exactly once.
"""
from __future__ import annotations

import contextlib
import copy
import io
from typing import Any, Dict, List, Optional, Tuple

from mcx.bfs import bfs
from mcx.core import Ctx, Part, digest, pmap
from odxmodel.refisotp import Monitor, pattern, segment

PROPERTY = "C13"
LEVEL = "fault_enumeration"

_SINK = io.StringIO()
RX = 0x7E8
RX2 = 0x7E9
FOREIGN = 0x123


def fh(b: bytes) -> str:
    return bytes(b).hex()


class FakeBus:

    def __init__(self) -> None:
        self.sent: List[Any] = []

    def send(self, msg: Any, timeout: Any = None) -> None:
        self.sent.append(msg)


VARIANTS = ("plain", "snoop-verbose", "snoop-verbose-active", "plain-first-only")


class Run:
    """One execution: a real ISO-TP decoder + one monitor per known ID.  Variants: the plain IsoTpStateMachine,
    the verbose decoder that `odxtools snoop` builds around it, and the verbose active decoder on a fake bus."""

    def __init__(self, ids: Tuple[int, ...] = (RX, RX2), variant: str = "plain") -> None:
        from odxtools.isotp_state_machine import IsoTpActiveDecoder, IsoTpStateMachine
        self.ids = ids
        self.variant = variant
        if variant in ("plain", "plain-first-only"):
            self.sm = IsoTpStateMachine(list(ids))
        else:
            from odxtools.cli.snoop import init_verbose_state_machine
            if variant == "snoop-verbose":
                self.sm = init_verbose_state_machine(IsoTpStateMachine, can_rx_ids=list(ids))
            else:
                self.sm = init_verbose_state_machine(IsoTpActiveDecoder, can_bus=FakeBus(), can_rx_ids=list(ids),
                                                     can_tx_ids=[0x7E0 + k for k in range(len(ids))], padding_size=8)
        self.mon = {i: Monitor() for i in ids}
        self.problems: List[Tuple[str, str]] = []
        self.outputs: List[Tuple[int, bytes]] = []

    def deliver(self, can_id: int, data: bytes) -> List[Tuple[int, bytes]]:
        self.problems = []
        if can_id in self.mon:
            self.mon[can_id].deliver(data)
        try:
            if self.variant == "plain":
                got = [(i, bytes(t)) for i, t in self.sm.decode_rx_frame(can_id, bytes(data))]
            elif self.variant == "plain-first-only":
                # a consumer that takes the (at most one) telegram of a frame and does not resume the generator
                first = next(iter(self.sm.decode_rx_frame(can_id, bytes(data))), None)  # (the suspended generator is dropped)
                got = [] if first is None else [(first[0], bytes(first[1]))]
            else:
                with contextlib.redirect_stdout(_SINK):
                    got = [(i, bytes(t)) for i, t in self.sm.decode_rx_frame(can_id, bytes(data))]
                _SINK.seek(0)
                _SINK.truncate()
        except Exception as e:  # the property: processing a frame never raises
            kind = frame_kind(data)
            v = "" if self.variant == "plain" else "/" + self.variant
            self.problems.append((f"C13/raises/{kind}/{type(e).__name__}{v}", f"frame {fh(data)} on {can_id:#x}: {type(e).__name__}: {e}"))
            return []
        for i, t in got:
            if i != can_id or can_id not in self.mon:
                self.problems.append(("C13/wrong-id", f"telegram for id {i:#x} reported while processing a frame of {can_id:#x}"))
                continue
            why = self.mon[can_id].justify(t)
            if why is not None:
                self.problems.append((f"C13/unjustified/{frame_kind(data)}", f"telegram {fh(t)} after frame {fh(data)}: {why}"))
        self.outputs.extend(got)
        return got

    def impl_state(self) -> Any:
        sm = self.sm
        return (tuple(sm._telegram_specified_len), tuple(None if d is None else bytes(d) for d in sm._telegram_data),
                tuple(sm._telegram_last_rx_fragment_idx))

    def canon(self) -> Any:
        try:
            st = self.impl_state()
        except AttributeError:  # attributes renamed: fall back to a deep repr of the instance dict
            st = repr(sorted(self.sm.__dict__.items()))
        # every other attribute the object carries is part of its state too (a cache, a remembered frame size, ...): two
        # states that differ there must not be merged
        known = {"_telegram_specified_len", "_telegram_data", "_telegram_last_rx_fragment_idx", "_can_bus"}
        extra = tuple(sorted((k, repr(v)) for k, v in vars(self.sm).items() if k not in known and not callable(v)))
        return (st, extra, tuple(self.mon[i].key() for i in self.ids))


def frame_kind(data: bytes) -> str:
    if len(data) == 0:
        return "empty"
    t = data[0] >> 4
    name = {0: "SF", 1: "FF", 2: "CF", 3: "FC"}.get(t, "unknown-type")
    if len(data) == 1 and t in (1,):
        return name + "-1byte"
    return name


PROBES = {
    "SF": [bytes([0x03, 0xD1, 0xD2, 0xD3])],
    "FF+2CF": segment(bytes(range(0xE0, 0xE0 + 17)), 8, 0x55),
}
PROBE_PAYLOAD = {"SF": bytes([0xD1, 0xD2, 0xD3]), "FF+2CF": bytes(range(0xE0, 0xE0 + 17))}


def run_probe(r: Run, can_id: int, tag: str) -> List[Tuple[str, str]]:
    """After any history, a well-formed transfer on the ID is reassembled exactly once and correctly."""
    out: List[Tuple[str, str]] = []
    for name, frames in PROBES.items():
        rr = copy.deepcopy(r)
        got: List[bytes] = []
        for f in frames:
            res = rr.deliver(can_id, f)
            out.extend(rr.problems)
            got.extend(t for i, t in res if i == can_id)
        if got != [PROBE_PAYLOAD[name]]:
            out.append((f"C13/probe-{name}/{tag}", f"probe {name} after the history yielded {[fh(g) for g in got]}"))
    return out


# ---------------------------------------------------------------------------------------------
# (b) BFS over all frame sequences
# ---------------------------------------------------------------------------------------------
def frame_alphabet() -> List[Tuple[int, bytes]]:
    p10 = pattern(10, 1)
    p20 = pattern(20, 2)
    return [
        (RX, bytes([0x03, 0xA1, 0xA2, 0xA3])),  # SF
        (RX, bytes([0x02, 0xB1, 0xB2, 0xCC, 0xCC, 0xCC, 0xCC, 0xCC])),  # padded SF
        (RX, bytes([0x10, 10]) + p10[:6]),  # FF len 10
        (RX, bytes([0x10, 20]) + p20[:6]),  # FF len 20
        (RX, bytes([0x21]) + p10[6:10] + bytes([0xAA] * 3)),  # CF1 completing the len-10 transfer (padded)
        (RX, bytes([0x21]) + p20[6:13]),  # CF1 of len-20
        (RX, bytes([0x22]) + p20[13:20]),  # CF2 of len-20
        (RX, bytes([0x23, 0x31, 0x32, 0x33, 0x34, 0x35, 0x36, 0x37])),  # CF3
        (RX, bytes([0x20, 0x41, 0x42, 0x43, 0x44, 0x45, 0x46, 0x47])),  # CF0
        (RX, bytes([0x30, 0x00, 0x00])),  # FC continue
        (RX, b""),  # empty frame
        (RX, bytes([0x10])),  # truncated FF
        (RX, bytes([0x10, 20])),  # FF truncated behind its length field
        (RX, bytes([0x21])),  # CF without data
        (RX, bytes([0x40, 0x01])),  # unknown frame type
        (RX, bytes([0x00])),  # SF length 0
        (RX, bytes([0x00, 0x03, 0xC1, 0xC2, 0xC3, 0xCC, 0xCC, 0xCC])),  # classic 8-byte frame that looks like an FD escape SF
        (RX, bytes([0x00, 0x09]) + bytes(range(0xD0, 0xD9)) + bytes([0xCC])),  # genuine 12-byte FD escape SF
        (RX, bytes([0x24, 0x81, 0x82, 0x83, 0x84, 0x85, 0x86, 0x87])),  # CF4
        (RX, bytes([0x10, 0x03, 0x91, 0x92, 0x93, 0x94, 0x95, 0x96])),  # malformed FF announcing 3 bytes
        (RX, bytes([0x10, 0x00, 0x00, 0x00, 0x00, 0x0A, 0x01, 0x02])),  # FF with the 32-bit length escape
        (RX, bytes([0x05, 0xA1])),  # SF announcing more than it carries
        (RX, bytes([0x32, 0x00, 0x00])),  # FC overflow/abort
        (RX, bytes([0x30])),  # flow control cut behind its first byte
        (RX, bytes([0x31, 0x00])),  # flow control (wait) cut behind its second byte
        (RX2, bytes([0x10, 9]) + pattern(9, 9)[:6]),  # FF on another known id
        (RX2, bytes([0x21]) + pattern(9, 9)[6:9]),  # its CF
        (RX2, bytes([0x21, 0x51, 0x52, 0x53])),  # CF on another known id
        (FOREIGN, bytes([0x21, 0x61, 0x62])),  # unrelated id
    ]


ALPHA = frame_alphabet()


def bfs_rebuild(hist: Tuple[int, ...]) -> Run:
    r = Run(variant=_BFS_VARIANT[0])
    allp: List[Tuple[str, str]] = []
    for ev in hist:
        cid, data = ALPHA[ev]
        r.deliver(cid, data)
        allp = r.problems
    r.problems = allp
    return r


def bfs_step(r: Run, ev: int) -> Run:
    r2 = copy.deepcopy(r)
    cid, data = ALPHA[ev]
    r2.deliver(cid, data)
    return r2


def bfs_check(r: Run, hist: Tuple[int, ...], ev: Any) -> List[Tuple[str, str]]:
    out = list(r.problems)
    if not out:
        out.extend(run_probe(r, RX, "after-" + (frame_kind(ALPHA[ev][1]) if ev is not None else "init")))
    return out


_BFS_VARIANT = ["plain"]


def explore(unit: Tuple[Tuple[int, ...], int, str]) -> Part:
    start, depth, variant = unit
    _BFS_VARIANT[0] = variant
    part = Part()
    seen: set = set()
    res = bfs(init=lambda: Run(variant=variant), events=lambda s: range(len(ALPHA)), step=bfs_step, canon=lambda s: digest(s.canon()),
              check=bfs_check, depth=depth, seen=seen, start_hist=start)
    part.count("transitions", res.transitions)
    part.count("bfs_sequences", res.transitions)
    part.sets["states"] = {(variant, x) for x in seen}
    part.add("depth", len(start) + res.max_depth)
    part.count("bfs_frontier_left_at_bound_" + variant, res.frontier_left)
    for key, hist, detail in res.violations:
        part.violation(key, {"mode": "sequence", "variant": variant, "frames": [[ALPHA[e][0], fh(ALPHA[e][1])] for e in hist]}, detail)
    return part


# ---------------------------------------------------------------------------------------------
# (a) fault enumeration
# ---------------------------------------------------------------------------------------------
def base_streams() -> Dict[str, List[Tuple[int, bytes]]]:
    s: Dict[str, List[Tuple[int, bytes]]] = {}
    s["SF"] = [(RX, f) for f in segment(pattern(5), 8, None)]
    s["FF+2CF"] = [(RX, f) for f in segment(pattern(18, 3), 8, 0xAA)]
    s["FF+17CF"] = [(RX, f) for f in segment(pattern(6 + 7 * 16 + 3, 4), 8, 0x00)]
    a = [(RX, f) for f in segment(pattern(18, 5), 8, None)]
    b = [(RX2, f) for f in segment(pattern(15, 6), 8, None)]
    s["2ids-interleaved"] = [a[0], b[0], a[1], b[1], a[2], b[2]]
    s["SF,FF+2CF"] = [(RX, f) for f in segment(pattern(3, 7), 8, None) + segment(pattern(16, 8), 8, None)]
    s["FF+2CF,FF+2CF"] = [(RX, f) for f in segment(pattern(17, 9), 8, None) + segment(pattern(18, 10), 8, 0x55)]
    s["FF+41CF"] = [(RX, f) for f in segment(pattern(6 + 7 * 40 + 5, 11), 8, 0xAA)]  # 291 bytes: the announced length needs its high nibble
    s["FD:FF+2CF"] = [(RX, f) for f in segment(pattern(150, 12), 64, 0xAA)]  # 64-byte frames: consecutive frames carry 63 bytes
    s["FD:FF+1CF,SF"] = [(RX, f) for f in segment(pattern(21, 13), 12, None) + segment(pattern(10, 14), 12, None)]  # 12-byte frames, exact-fit escape SF
    return s


def base_payloads() -> Dict[str, Dict[int, List[bytes]]]:
    """What each base stream transfers per ID (same arguments as in base_streams)."""
    return {"SF": {RX: [pattern(5)]}, "FF+2CF": {RX: [pattern(18, 3)]}, "FF+17CF": {RX: [pattern(6 + 7 * 16 + 3, 4)]},
            "2ids-interleaved": {RX: [pattern(18, 5)], RX2: [pattern(15, 6)]}, "SF,FF+2CF": {RX: [pattern(3, 7), pattern(16, 8)]},
            "FF+2CF,FF+2CF": {RX: [pattern(17, 9), pattern(18, 10)]}, "FF+41CF": {RX: [pattern(6 + 7 * 40 + 5, 11)]},
            "FD:FF+2CF": {RX: [pattern(150, 12)]}, "FD:FF+1CF,SF": {RX: [pattern(21, 13), pattern(10, 14)]}}


def fault_menu(stream: List[Tuple[int, bytes]], pos: int) -> List[Tuple[str, List[Tuple[int, bytes]]]]:
    """All single faults applicable at position pos: (name, replacement for stream[pos:pos+1] or insertion)."""
    cid, d = stream[pos]
    out: List[Tuple[str, List[Tuple[int, bytes]]]] = []
    out.append(("drop", []))
    out.append(("duplicate", [(cid, d), (cid, d)]))
    if pos + 1 < len(stream):
        out.append(("swap", [stream[pos + 1], (cid, d)]))  # consumes two positions; handled by the caller
    for n in (0, 1, 2):
        if len(d) > n:
            out.append((f"truncate{n}", [(cid, d[:n])]))
    if d[0] != 0:
        out.append(("pci-byte-zero", [(cid, bytes([0]) + d[1:])]))
    for hi in range(16):
        if hi != d[0] >> 4:
            out.append((f"pci{hi:x}", [(cid, bytes([(hi << 4) | (d[0] & 0xF)]) + d[1:])]))
    if d[0] >> 4 == 2:
        for sn in range(16):
            if sn != d[0] & 0xF:
                out.append((f"sn{sn:x}", [(cid, bytes([0x20 | sn]) + d[1:])]))
    nxt_sn = ((d[0] & 0xF) + 1) % 16 if d[0] >> 4 == 2 else 1
    out.append(("stray-cf-before", [(cid, bytes([0x20 | nxt_sn, 0x71, 0x72, 0x73, 0x74, 0x75, 0x76, 0x77])), (cid, d)]))
    out.append(("stray-cf-after", [(cid, d), (cid, bytes([0x20 | nxt_sn, 0x71, 0x72, 0x73, 0x74, 0x75, 0x76, 0x77]))]))
    out.append(("fc-after", [(cid, d), (cid, bytes([0x30, 0x00, 0x00]))]))
    out.append(("short-fc-after", [(cid, d), (cid, bytes([0x30]))]))
    out.append(("sf-after", [(cid, d), (cid, bytes([0x03, 0x61, 0x62, 0x63]))]))  # an unrelated single frame inside the transfer
    out.append(("empty-after", [(cid, d), (cid, b"")]))
    return out


def apply_faults(stream: List[Tuple[int, bytes]], faults: List[Tuple[int, str]]) -> Optional[List[Tuple[int, bytes]]]:
    """faults: list of (position in the ORIGINAL stream, fault name), positions strictly increasing by >= 1
    (swap needs pos+1 free)."""
    out: List[Tuple[int, bytes]] = []
    i = 0
    fmap = dict(faults)
    while i < len(stream):
        if i in fmap:
            menu = dict(fault_menu(stream, i))
            rep = menu.get(fmap[i])
            if rep is None:
                return None
            out.extend(rep)
            if fmap[i] == "swap":
                if (i + 1) in fmap:
                    return None
                i += 2
                continue
        else:
            out.append(stream[i])
        i += 1
    return out


def run_stream(frames: List[Tuple[int, bytes]], variant: str = "plain") -> Tuple[List[Tuple[str, str]], Run]:
    r = Run(variant=variant)
    probs: List[Tuple[str, str]] = []
    for cid, d in frames:
        r.deliver(cid, d)
        probs.extend(r.problems)
        if r.problems and any(k.startswith("C13/raises") for k, _ in r.problems):
            break
    if not probs:
        for cid in sorted({c for c, _ in frames if c in r.mon}):
            probs.extend(run_probe(r, cid, "after-faults"))
    return probs, r


def text_path(frames: List[Tuple[int, bytes]], r: Run) -> List[Tuple[str, str]]:
    """The same (faulty) frame stream as candump text in both formats through read_telegrams(): reading never raises
    and reports what the frame API reported."""
    import io

    from odxtools.isotp_state_machine import IsoTpStateMachine

    from checks.c12 import drive_async, render
    out: List[Tuple[str, str]] = []
    for fmt in ("normal", "log"):
        text = render(frames, fmt)
        try:
            with contextlib.redirect_stderr(_SINK):
                got = [(i, bytes(t)) for i, t in drive_async(IsoTpStateMachine(list(r.ids)).read_telegrams(io.StringIO(text)))]
            _SINK.seek(0)
            _SINK.truncate()
        except Exception as e:  # noqa
            out.append((f"C13/text-{fmt}/raises/{type(e).__name__}", f"{type(e).__name__}: {e}"))
            continue
        if got != r.outputs:
            out.append((f"C13/text-{fmt}/differs-from-frame-api", f"text: {[fh(t) for _, t in got]} frames: {[fh(t) for _, t in r.outputs]}"))
    # blank and whitespace-only lines between the frames are not the end of the log
    for fmt in ("normal", "log"):
        lines = render(frames, fmt).splitlines()
        text = "".join(ln + "\n" + ("\n", "   \n")[k % 2] for k, ln in enumerate(lines))
        try:
            with contextlib.redirect_stderr(_SINK):
                got = [(i, bytes(t)) for i, t in drive_async(IsoTpStateMachine(list(r.ids)).read_telegrams(io.StringIO(text)))]
            _SINK.seek(0)
            _SINK.truncate()
        except Exception as e:  # noqa
            out.append((f"C13/text-{fmt}-blank-lines/raises/{type(e).__name__}", f"{type(e).__name__}: {e}"))
            continue
        if got != r.outputs:
            out.append((f"C13/text-{fmt}-blank-lines/differs-from-frame-api", f"text: {[fh(t) for _, t in got]} frames: {[fh(t) for _, t in r.outputs]}"))
    # a compact log whose lines are cut in the middle of the last byte: the lone hex digit is read as a byte of its own
    cut = [(c, d[:-1] + bytes([d[-1] >> 4])) for c, d in frames if len(d) >= 1]
    text = "".join(f"({1000 + k}.000000) can0 {c:03X}#{d.hex().upper()[:-1]}\n" for k, (c, d) in enumerate(frames) if len(d) >= 1)
    try:
        with contextlib.redirect_stderr(_SINK):
            got = [(i, bytes(t)) for i, t in drive_async(IsoTpStateMachine(list(r.ids)).read_telegrams(io.StringIO(text)))]
        _SINK.seek(0)
        _SINK.truncate()
    except Exception as e:  # noqa
        out.append((f"C13/text-log-cut/raises/{type(e).__name__}", f"{type(e).__name__}: {e}"))
        return out
    sm = IsoTpStateMachine(list(r.ids))
    want: List[Tuple[int, bytes]] = []
    try:
        for c, d in cut:
            want.extend((i, bytes(t)) for i, t in sm.decode_rx_frame(c, d))
    except Exception:  # judged by the frame-level part of the check
        return out
    if got != want:
        out.append(("C13/text-log-cut/differs-from-frame-api", f"text: {[fh(t) for _, t in got]} frames: {[fh(t) for _, t in want]}"))
    return out


def fault_unit(unit: Tuple[str, int]) -> Part:
    name, nfaults, shard, nshards, variant = unit
    part = Part()
    stream = base_streams()[name]
    payloads = base_payloads()[name]
    combos: List[List[Tuple[int, str]]] = []
    if nfaults == 0:
        combos = [[]]
    elif nfaults == 1:
        combos = [[(p, f)] for p in range(len(stream)) for f, _ in fault_menu(stream, p)]
    else:
        for p in range(len(stream)):
            for f, _ in fault_menu(stream, p):
                for q in range(p + 1, len(stream)):
                    for g, _ in fault_menu(stream, q):
                        combos.append([(p, f), (q, g)])
    for ci, faults in enumerate(combos):
        if ci % nshards != shard:
            continue
        frames = apply_faults(stream, faults)
        if frames is None:
            continue
        part.count("fault_executions")
        probs, r = run_stream(frames, variant)
        part.add("nontrivial", digest((name, [f for _, f in faults], [fh(t) for _, t in r.outputs])))
        part.add("outcomes", digest([fh(t) for _, t in r.outputs]))
        if not probs:
            # an ID none of whose frames is touched by a fault gets exactly its telegrams
            touched = set()
            for pos, f in faults:
                touched.add(stream[pos][0])
                if f == "swap":
                    touched.add(stream[pos + 1][0])
            for cid, want in payloads.items():
                if cid in touched:
                    continue
                part.count("untouched_id_completeness_checked")
                got_c = [t for i, t in r.outputs if i == cid]
                if got_c != want:
                    probs.append((f"C13/untouched-id-incomplete/{variant}",
                                  f"id {cid:#x} (no fault on its frames) reported {[fh(t) for t in got_c]}, transferred {[fh(t) for t in want]}"))
        if variant == "plain" and not probs and (nfaults <= 1 or len(stream) <= 10):
            probs = text_path(frames, r)
        for key, detail in probs:
            part.violation(key, {"mode": "stream", "variant": variant, "base": name, "faults": [list(f) for f in faults],
                                 "frames": [[c, fh(d)] for c, d in frames]}, detail)
        if nfaults == 2 and part.counts["fault_executions"] % 5000 == 1:
            part.sample({"base": name, "faults": faults, "telegrams": [fh(t) for _, t in r.outputs]}, limit=2)
    return part


def run(ctx: Ctx) -> None:
    depth = 6 if ctx.quick else 14
    streams = base_streams()
    ctx.bounds = {"bfs_depth": depth, "frame_alphabet": [[c, fh(d)] for c, d in ALPHA], "fault_bound": 2,
                  "base_streams": {k: len(v) for k, v in streams.items()},
                  "fault_kinds": ["drop", "duplicate", "swap", "truncate0/1/2", "pci high nibble 0..15",
                                  "sequence number 0..15", "stray CF before/after", "FC", "FC cut to one byte", "single frame inside the transfer", "empty frame"]}
    ctx.rule = ("(a) every placement of 0, 1 and 2 faults on each base stream, each followed by a probe transfer; (b) BFS "
                "over all frame sequences up to the depth bound over the frame alphabet, deduplicated on (real per-ID "
                "state, monitor state); non-trivial = distinct (base, faults, reported telegrams) outcomes")
    ctx.assumptions = ["telegram justification as in DESIGN 5/C13: any in-order subsequence of CFs after the latest FF",
                       "callback invocations are recorded but not judged", "normal addressing, 12-bit FF length"]
    units: List[Tuple[Any, ...]] = []
    for k in (0, 1, 2):
        for n in streams:
            if k == 2 and n == "FF+41CF":
                continue  # (42 frames: single faults only)
            ns = 32 if (k == 2 and len(streams[n]) > 10) else (4 if k == 2 else 1)
            for variant in VARIANTS:
                if variant != "plain" and k == 2 and (ctx.quick or len(streams[n]) > 10):
                    continue  # the verbose decoders share the reassembly code: double faults on them only for short streams, thorough tier
                units.extend((n, k, sh, ns, variant) for sh in range(ns))
    if ctx.quick:
        units = [u for u in units if not (u[1] == 2 and u[0] == "FF+17CF")]
        ctx.note("quick: double faults on the 18-frame stream are left to the thorough tier")
    pmap(ctx, fault_unit, units)
    # BFS (single process: the reachable state space is small and is explored to its fixpoint if the depth allows)
    # the plain state machine is explored to its fixpoint; the verbose decoders (same reassembly code + callbacks; the
    # active one also counts received frames, which keeps producing new states) to a depth bound, sharded by first frame
    bunits: List[Any] = [((), depth, "plain")]
    vdepth = 4 if ctx.quick else 6
    for v in VARIANTS[1:]:
        bunits.append(((), 1, v))
        bunits += [((e,), vdepth - 1, v) for e in range(len(ALPHA))]
    ctx.bounds["bfs_depth_verbose_variants"] = vdepth
    pmap(ctx, explore, bunits)
    states = ctx.sets.pop("states")
    ctx.counts["states"] = len(states)
    ctx.counts["max_depth"] = max(ctx.sets.pop("depth"))
    ctx.counts["evaluations"] = ctx.counts.get("fault_executions", 0) + ctx.counts.get("bfs_sequences", 0)
    ctx.counts["traces_validated_against_impl"] = ctx.counts["evaluations"]
    ctx.sample({"base": "FF+2CF", "frames": [fh(d) for _, d in streams["FF+2CF"]]})
    ctx.sample({"bfs_sequence": [fh(ALPHA[e][1]) for e in (2, 4, 4)]})
    ctx.guard("untouched-ID completeness checked", ctx.counts.get("untouched_id_completeness_checked", 0) > 100)
    ctx.guard("fault executions > 500", ctx.counts.get("fault_executions", 0) > 500)
    ctx.guard("distinct outcomes > 20", len(ctx.sets.get("outcomes", ())) > 20)
    ctx.extra["bfs_fixpoint_reached_plain_decoder"] = ctx.counts.get("bfs_frontier_left_at_bound_plain", 0) == 0
    ctx.guard("bfs states > 100", ctx.counts["states"] > 100)
    for cid in (RX, RX2):
        probs = run_probe(Run(), cid, "init")
        ctx.guard(f"probe is reassembled from the initial state on {cid:#x}", not probs)
    ctx.bounds["decoder_variants"] = list(VARIANTS)


def replay(case: Any) -> List[Tuple[str, str]]:
    frames = [(int(c), bytes.fromhex(h)) for c, h in case["frames"]]
    variant = case.get("variant", "plain")
    if case.get("mode") == "sequence":
        r = Run(variant=variant)
        out: List[Tuple[str, str]] = []
        last = None
        for cid, d in frames:
            r.deliver(cid, d)
            out.extend(r.problems)
            last = d
            if r.problems:
                return out
        out.extend(run_probe(r, RX, "after-" + (frame_kind(last) if last is not None else "init")))
        return out
    probs, r = run_stream(frames, variant)
    if not probs and case.get("base") in base_payloads():
        stream = base_streams()[case["base"]]
        touched = set()
        for pos, f in case.get("faults", []):
            touched.add(stream[pos][0])
            if f == "swap":
                touched.add(stream[pos + 1][0])
        for cid, want in base_payloads()[case["base"]].items():
            got_c = [t for i, t in r.outputs if i == cid]
            if cid not in touched and got_c != want:
                probs.append((f"C13/untouched-id-incomplete/{variant}", f"id {cid:#x} reported {[fh(t) for t in got_c]}"))
    if variant == "plain" and not probs:
        probs = text_path(frames, r)
    return probs
