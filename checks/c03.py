"""C03 -- decode -> encode reproduces the PDU.

Wire states are built by the reference interpreter from every value assignment of the codec space (all
internal values of small types; canonical by construction: no negative zero, BCD digits <= 9, padding 0).
Oracle: if the real decoder accepts the PDU, encoding the decoded values gives back the identical bytes,
directly (Request/Response) and through the layer (DiagLayer.decode -> DiagService.encode_request).
"""
from __future__ import annotations

from typing import Any, Dict, List, Tuple

from checks.codec_common import make_contextualize, make_unit_fn, minimize_keys, prog_case, replay_with, tagkey
from mcx.core import Ctx, Part, digest, pmap
from odxmodel import harness, refodx, space
from odxmodel.harness import jval, show

PROPERTY = "C03"
LEVEL = "model_checking"


def first_listed_inverse_covers_everything(d: Dict[str, Any]) -> bool:
    """SCALE-RAT-FUNC, 8-bit internal type, one forward scale x -> x, several explicit inverse scales of which the FIRST is
    p -> p with the limits of the forward scale: the scales are consulted in the order listed (as for every other category),
    so the later ones never decide and the description is its own inverse."""
    cm = d["cm"]
    if cm.get("cat") != "SCALE-RAT-FUNC" or d["dct"].get("bits") != 8 or d["dct"].get("k", "STD") != "STD":
        return False
    i2p, p2i = cm.get("i2p") or [], cm.get("p2i") or []
    if len(i2p) != 1 or len(p2i) < 2:
        return False
    ident = lambda s: list(s["num"]) == [0, 1] and list(s.get("den") or [1]) == [1]  # noqa: E731
    return ident(i2p[0]) and ident(p2i[0]) and i2p[0].get("lo") == p2i[0].get("lo") and i2p[0].get("hi") == p2i[0].get("hi") \
        and i2p[0].get("lo") is not None and i2p[0].get("hi") is not None


def check_program(L: harness.Loaded, prog: Dict[str, Any], part: Part) -> None:
    msg = L.msg[prog["pid"]]
    tag = tagkey(prog)
    if any(p["t"] == "NRC-CONST" for p in prog["params"]):
        return  # NRC-CONST values cannot be set by design; such PDUs are not 'described by value-carrying parameters' only
    if prog["tags"][0] == "compu":
        # the property demands the identity only where the conversion is injective
        from odxmodel import refcompu as RC
        d = prog["dops"][0]
        if not RC.is_injective(d["cm"], d["dct"]["base"], d["phys"]):
            if first_listed_inverse_covers_everything(d):
                # every byte is a PDU here; the reference is not asked (it leaves physical values that several inverse
                # scales claim with different results undecided), the round trip through the library alone decides
                for pdu in prog.get("pdus") or [bytes([x]) for x in range(256)]:
                    part.count("evaluations")
                    case = {"program": prog_case(prog), "values": None, "pdu": pdu.hex()}
                    dec, dexc = harness.odx_decode(msg, pdu)
                    if dexc is not None or not isinstance(dec, dict):
                        part.count("decoder_refuses")
                        continue
                    part.count("decoded")
                    part.add("nontrivial", digest((prog["tags"], pdu.hex())))
                    pdu2, exc, _ = harness.odx_encode(msg, dec, prog.get("request"))
                    if exc is not None:
                        part.violation(f"C03/{tag}/decoded-values-refused/{type(exc).__name__}", case,
                                       f"{pdu.hex()} -> {show(dec)} -> {type(exc).__name__}: {str(exc)[:150]}")
                    elif pdu2 != pdu:
                        part.violation(f"C03/{tag}/re-encoding-differs", case, f"{pdu.hex()} -> {show(dec)} -> {pdu2.hex()}")
                return
            part.count("non_injective_compu_methods_skipped")
            return
    def int_keyed_mux(v: Any) -> bool:
        if isinstance(v, tuple) and len(v) == 2 and isinstance(v[0], int) and not isinstance(v[0], bool):
            return True
        if isinstance(v, dict):
            return any(int_keyed_mux(x) for x in v.values())
        if isinstance(v, (list, tuple)):
            return any(int_keyed_mux(x) for x in v)
        return False

    done = set()
    for values in prog["assign"]:
        if int_keyed_mux(values):
            # a MUX key that is not the canonical one of its case (or selects the default case) is not recoverable
            # from the decoded (case name, content) pair: such PDUs are not 'in canonical form'
            continue
        try:
            pdu, ref_out, e = L.interp.encode(prog["pid"], values, prog.get("request"))
        except (refodx.Reject, refodx.DontCare):
            continue
        if e.overlap or pdu in done:
            continue
        done.add(pdu)
        part.count("evaluations")
        case = {"program": prog_case(prog), "values": jval(values), "pdu": pdu.hex()}
        dec, dexc = harness.odx_decode(msg, pdu)
        if dexc is not None:
            part.count("decoder_refuses")
            continue
        part.count("decoded")
        part.add("nontrivial", digest((prog["tags"], pdu.hex())))
        if not isinstance(dec, dict):
            part.violation(f"C03/{tag}/decode-not-a-dict", case, repr(dec)[:100])
            continue
        pdu2, exc, _ = harness.odx_encode(msg, dec, prog.get("request"))
        if exc is not None:
            part.violation(f"C03/{tag}/decoded-values-refused/{type(exc).__name__}", case,
                           f"{pdu.hex()} -> {show(dec)} -> {type(exc).__name__}: {str(exc)[:150]}")
        elif pdu2 != pdu:
            part.violation(f"C03/{tag}/re-encoding-differs", case, f"{pdu.hex()} -> {show(dec)} -> {pdu2.hex()}")
    # through the layer, for requests that start with a constant (needed for dispatch)
    if prog.get("kind", "REQUEST") == "REQUEST" and prog["params"] and prog["params"][0]["t"] == "CODED-CONST" and prog["tags"][0] == "prog" and \
            prog["params"][0].get("byte") in (None, 0) and "CNV" not in prog["tags"][1].split("+")[:1]:
        for values in prog["assign"][:1]:
            try:
                pdu, _, e = L.interp.encode(prog["pid"], values)
            except (refodx.Reject, refodx.DontCare):
                continue
            if e.overlap:
                continue
            try:
                msgs = L.layer.decode(pdu)
            except Exception:
                continue
            mine = [m for m in msgs if m.coding_object is msg]
            part.count("via_layer")
            for m in mine[:1]:
                try:
                    pdu2 = bytes(m.service.encode_request(**m.param_dict))
                except Exception as ex:  # noqa
                    part.violation(f"C03/{tag}/layer-decoded-values-refused/{type(ex).__name__}",
                                   {"program": prog_case(prog), "values": jval(values), "pdu": pdu.hex()}, f"{type(ex).__name__}: {str(ex)[:150]}")
                    continue
                if pdu2 != pdu:
                    part.violation(f"C03/{tag}/layer-re-encoding-differs", {"program": prog_case(prog), "values": jval(values), "pdu": pdu.hex()},
                                   f"{pdu.hex()} -> {pdu2.hex()}")


unit_fn = make_unit_fn(PROPERTY, check_program)


def units_for(quick: bool) -> List[Any]:
    return space.layer_a_units(quick) + space.layer_b_units(quick) + space.layer_c_units(quick)


contextualize = make_contextualize(PROPERTY, units_for)


def run(ctx: Ctx) -> None:
    units = units_for(ctx.quick)
    ctx.bounds = {"layers": "A + C", "units": len(units), "all_values_upto_bits": 8 if ctx.quick else 12}
    ctx.rule = "every distinct reference-built PDU of every program; non-trivial = distinct (program tags, PDU)"
    ctx.assumptions = ["PDUs are canonical by construction (reference encoder)", "programs with NRC-CONST parameters are excluded (not settable by design)",
                       "the compu-level inverse law of the property is checked by C07"]
    pmap(ctx, unit_fn, units, isolate=True)
    minimize_keys(ctx)
    ctx.counts["traces_validated_against_impl"] = ctx.counts.get("decoded", 0)
    ctx.sample({"program": "i_Ux_l_12_3_a", "pdu": "e055", "decoded": {"v": 2748}, "re-encoded": "e055"})
    ctx.guard("decoded > 1000", ctx.counts.get("decoded", 0) > 1000)


def replay(case: Any) -> List[Tuple[str, str]]:
    return replay_with(unit_fn, case, PROPERTY)
