"""Shared driver for the codec-space checks (C01, C03, C04, C05, C08, C17): units of programs are emitted,
loaded through the real loader and handed to a per-property `check_program(L, prog, part)`."""
from __future__ import annotations

import json
import os
import subprocess
import sys
from typing import Any, Callable, Dict, List, Optional, Tuple

from mcx.core import Part
from odxmodel import harness
from odxmodel.harness import jval, unjval


def prog_case(prog: Dict[str, Any]) -> Dict[str, Any]:
    return {"pid": prog["pid"], "dops": prog["dops"], "params": prog["params"], "kind": prog.get("kind", "REQUEST"),
            "request": jval(prog.get("request")), "tags": prog["tags"], "library": prog.get("library", False)}


def case_prog(p: Dict[str, Any], values: Any) -> Dict[str, Any]:
    return {"pid": p["pid"], "dops": p["dops"], "params": p["params"], "kind": p.get("kind", "REQUEST"),
            "request": unjval(p.get("request")), "tags": p["tags"], "library": p.get("library", False),
            "assign": [unjval(values)] if values is not None else []}


def tagkey(prog: Dict[str, Any]) -> str:
    """Finding-class part of a key: for composed programs the SET of templates (+ the set of non-automatic
    position modes), so that all programs exhibiting one defect share few keys; see minimize_keys()."""
    tags = prog["tags"]
    if tags and tags[0] == "prog":
        tset = "+".join(sorted(set(tags[1].split("+"))))
        modes = "".join(sorted(set(tags[2].split(":")[1]) - {"a"}))
        return f"prog/{tset}" + (f"/modes={modes}" if modes else "")
    return "/".join(tags[:2])


def _key_sets(key: str) -> Optional[Tuple[frozenset, frozenset, str]]:
    parts = key.split("/")
    if len(parts) < 4 or parts[1] != "prog":
        return None
    tset = frozenset(parts[2].split("+"))
    modes = frozenset(parts[3].split("=")[1]) if parts[3].startswith("modes=") else frozenset()
    return tset, modes, parts[0]


def minimize_keys(ctx: Any) -> None:
    """Drop violation keys of composed programs whose (template set, mode set) strictly contains that of
    another violating key: they are presumed to show the same defect in a larger program.  The dropped keys are
    counted in the evidence.  (If the smaller finding is repaired and the larger one persists it is reported.)"""
    ks = {k: _key_sets(k) for k in ctx.viol}
    drop = []
    for k, a in ks.items():
        if a is None:
            continue
        for k2, b in ks.items():
            if b is None or k2 == k:
                continue
            if b[0] <= a[0] and b[1] <= a[1] and (b[0], b[1]) != (a[0], a[1]):
                drop.append(k)
                break
    for k in drop:
        del ctx.viol[k]
    if drop:
        ctx.extra["violation_keys_subsumed_by_smaller_programs"] = len(drop)


def library_for(progs: List[Dict[str, Any]]) -> Optional[List[Dict[str, Any]]]:
    if any(p.get("library") for p in progs):
        from odxmodel import space
        return space.library()
    return None


def make_unit_fn(prop: str, check_program: Callable[[harness.Loaded, Dict[str, Any], Part], None]) -> Callable[[Any], Part]:

    def unit_fn(unit: Tuple[str, List[Dict[str, Any]]]) -> Part:
        name, progs = unit
        part = Part()
        try:
            L = harness.Loaded(progs, library_for(progs))
        except Exception:  # a program the loader refuses: localise it
            for p in progs:
                try:
                    harness.Loaded([p], library_for([p]))
                except Exception as ex2:
                    part.violation(f"{prop}/{tagkey(p)}/load-fails", {"program": prog_case(p), "values": None},
                                   f"{type(ex2).__name__}: {ex2}")
            return part
        part.count("programs", len(progs))
        part.count("states", len(progs))
        for p in progs:
            check_program(L, p, part)
            for t in p["tags"]:
                part.add("tags", t)
        part.count("transitions", part.counts.get("evaluations", 0))
        return part

    return unit_fn


def backend() -> str:
    return "pure" if os.environ.get("VERIF_PURE_BITSTRUCT") else "c"


def other_backend(ctx: Any, prop: str) -> None:
    """Run the same exploration in a process in which bitstruct.c is not importable and merge its result."""
    from mcx.core import VERIF, HarnessError
    env = dict(os.environ, VERIF_PURE_BITSTRUCT="1", VERIF_SEED=str(ctx.seed))
    code = ("import sys, json; sys.path.insert(0, %r); from mcx.core import sub_main; sub_main(%r, %r)" % (VERIF, prop, ctx.tier))
    r = subprocess.run([sys.executable, "-W", "ignore", "-c", code], env=env, capture_output=True, text=True, cwd=VERIF)
    lines = [l for l in r.stdout.splitlines() if l.startswith("SUBRESULT ")]
    if r.returncode != 0 or not lines:
        raise HarnessError("pure-backend subprocess failed: " + r.stderr[-1500:])
    other = json.loads(lines[-1][len("SUBRESULT "):])
    for k, v in other["viol"].items():
        if k not in ctx.viol or v[0] < ctx.viol[k][0]:
            ctx.viol[k] = (v[0], v[1], v[2])
    ctx.nviol += other["nviol"]
    ctx.extra["pure_backend"] = {"evaluations": other["counts"].get("evaluations", 0), "violating_keys": sorted(other["viol"])[:50]}
    ctx.guard("the pure backend evaluated the same number of cases", other["counts"].get("evaluations", -1) == ctx.counts.get("evaluations", 0))
    ctx.counts["evaluations"] = ctx.counts.get("evaluations", 0) + other["counts"].get("evaluations", 0)


def replay_with(unit_fn: Callable[[Any], Part], case: Any, prop: Optional[str] = None) -> List[Tuple[str, str]]:
    bk = case.get("backend", backend())
    if bk != backend() and prop is not None:
        from mcx.core import VERIF, HarnessError
        env = dict(os.environ)
        if bk == "pure":
            env["VERIF_PURE_BITSTRUCT"] = "1"
        else:
            env.pop("VERIF_PURE_BITSTRUCT", None)
        code = ("import sys, json; sys.path.insert(0, %r); from mcx.core import sub_replay; sub_replay(%r, sys.stdin.read())" % (VERIF, prop))
        r = subprocess.run([sys.executable, "-W", "ignore", "-c", code], env=env, input=json.dumps(case), capture_output=True, text=True, cwd=VERIF)
        line = [l for l in r.stdout.splitlines() if l.startswith("SUBRESULT ")]
        if not line:
            raise HarnessError("replay subprocess failed: " + r.stderr[-800:])
        return [tuple(x) for x in json.loads(line[-1][len("SUBRESULT "):])]
    if case.get("unit_replay"):
        # the case needs the other descriptions of its unit (state shared between objects): run the whole unit
        ur = case["unit_replay"]
        units = _UNITS[prop](ur["tier"] == "quick") if prop in _UNITS else []
        pid = case["program"]["pid"]
        unit = units[ur["index"]] if ur["index"] < len(units) and any(p["pid"] == pid for p in units[ur["index"]][1]) else \
            next((u for u in units if any(p["pid"] == pid for p in u[1])), None)
        if unit is None:
            return []
        part = unit_fn(unit)
        return [(k, v[2]) for k, v in part.viol.items()]
    prog = case_prog(case["program"], case.get("values"))
    if "pdu" in case:
        prog["pdus"] = [bytes.fromhex(case["pdu"])]
    part = unit_fn(("replay", [prog]))
    return [(k, v[2]) for k, v in part.viol.items()]


_UNITS: Dict[str, Callable[[bool], List[Any]]] = {}


def make_contextualize(prop: str, units_for: Callable[[bool], List[Any]]) -> Callable[[Any, Any], Any]:
    """Register how the property's units are generated; returns the hook run_check uses to widen a case that does not
    reproduce on a layer of its own to the whole unit it was found in."""
    _UNITS[prop] = units_for
    index: Dict[bool, Dict[str, Tuple[int, str]]] = {}

    def contextualize(case: Any, ctx: Any) -> Any:
        pid = (case.get("program") or {}).get("pid") if isinstance(case, dict) else None
        if pid is None or case.get("unit_replay"):
            return None
        if ctx.quick not in index:  # (generating the units is expensive: once per run)
            index[ctx.quick] = {}
            for idx, (name, progs) in enumerate(units_for(ctx.quick)):
                for p in progs:
                    index[ctx.quick].setdefault(p["pid"], (idx, name))
        hit = index[ctx.quick].get(pid)
        if hit is None:
            return None
        return dict(case, unit_replay={"unit": hit[1], "index": hit[0], "tier": ctx.tier})

    return contextualize


# ---------------------------------------------------------------------------------------------
# placement traces through EncodeState / DecodeState subclasses (no repository hooks)
# ---------------------------------------------------------------------------------------------
_TRACE_CLASSES: Dict[str, Any] = {}


def trace_classes() -> Tuple[Any, Any]:
    if not _TRACE_CLASSES:
        from odxtools.decodestate import DecodeState
        from odxtools.encodestate import EncodeState

        class TraceDecodeState(DecodeState):

            def extract_atomic_value(self, **kw: Any) -> Any:  # type: ignore[override]
                if not hasattr(self, "xtrace"):
                    self.xtrace = []
                    self.max_end = 0
                b, bit = self.cursor_byte_position, self.cursor_bit_position
                v = super().extract_atomic_value(**kw)
                self.xtrace.append((b, bit, kw["bit_length"]))
                self.max_end = max(self.max_end, self.cursor_byte_position)
                return v

        class TraceEncodeState(EncodeState):

            def emplace_atomic_value(self, **kw: Any) -> None:  # type: ignore[override]
                if not hasattr(self, "xtrace"):
                    self.xtrace = []
                self.xtrace.append((self.cursor_byte_position, self.cursor_bit_position, kw["bit_length"]))
                super().emplace_atomic_value(**kw)

        _TRACE_CLASSES["d"] = TraceDecodeState
        _TRACE_CLASSES["e"] = TraceEncodeState
    return _TRACE_CLASSES["e"], _TRACE_CLASSES["d"]


def traced_decode(msg: Any, pdu: bytes) -> Tuple[Any, Optional[BaseException], int, List[Tuple[int, int, int]]]:
    """-> (value, exception, consumed bytes = max(final cursor, largest extraction end), extraction trace)"""
    import warnings
    _, TD = trace_classes()
    st = TD(coded_message=bytes(pdu))
    with warnings.catch_warnings():
        warnings.simplefilter("ignore")
        try:
            v = msg.decode_from_pdu(st)
        except BaseException as e:  # noqa
            if isinstance(e, (KeyboardInterrupt, SystemExit)):
                raise
            return None, e, 0, getattr(st, "xtrace", [])
    return v, None, max(st.cursor_byte_position, getattr(st, "max_end", 0)), getattr(st, "xtrace", [])
