"""C09 -- a layer sees exactly the objects ODX value inheritance prescribes.

Enumerated (no sampling): every weakly connected layer hierarchy with <= N layers over the five layer types
whose PARENT-REFs ODX allows (refinherit.ALLOWED_PARENTS), one representative per isomorphism class  x  every
placement of 1..2 short names (per layer: absent / defined locally / referenced from a library layer with
DIAG-COMM-REF + DIAG-VARIABLE-REF / defined locally as a UNIT-GROUP whose content is the same in every layer, i.e.
value-equal but distinct objects, which must not count as a clash / defined locally with the short names of the
service and the single-ECU job swapped, so that jobs override inherited services of the same name and vice versa)  x  every NOT-INHERITED set over the (PARENT-REF, name) pairs the parent
really offers.  Each placement is instantiated at once in all categories that use the mechanism (services,
single-ECU jobs, DOPs, structures, tables, global negative responses, diag variables, functional classes,
state charts, additional audiences, unit groups; in the small spaces also the other eight kinds of data objects
of a DIAG-DATA-DICTIONARY-SPEC); every object carries `<layer>:<category>:<name>` in LONG-NAME.
The hierarchy is emitted as ODX XML (odxmodel.emit / emit_hier) and loaded by the real loader in strict mode;
independent hierarchies share a database (own container each) when the model predicts that all of them load.

Oracle (odxmodel.refinherit, no odxtools): per layer and category the visible (short name -> marker) map; strict
loading raises OdxError iff an equal-priority clash between different objects stays unresolved somewhere;
layer.decode(request of a service) finds exactly that service iff it is visible; a parent's observation is the
same in the database without the child.  Three-valued where the standard is read in two ways: rank of
ECU-SHARED-DATA relative to the other parent types, and diag variables handed through PROTOCOL layers.

Split-container phase: the small hierarchies are also emitted with one DIAG-LAYER-CONTAINER document per layer and
PARENT-REFs across documents, added parents-first and children-first; each must give the model's views and what the
single-document database shows.

Isolation: the workers enumerate, predict and emit; every database load (and every edit sequence) executes in a forked
child of the worker (mcx.core.isolated), and so does replay(): an outcome is a function of the case alone.  Sequence
phase: every configuration with a predicted clash is evaluated twice in one process (refresh() again after the error,
and the same description in a second database); the later outcomes must equal the first.

Re-resolution phase: for the small spaces every loaded hierarchy is refreshed again (idempotence) and then, for every
single edit of a menu applied to the loaded object graph (drop the objects of one placement from a layer's raw
data, drop one PARENT-REF, add one NOT-INHERITED entry), Database.refresh() must produce what the model says
for the EDITED hierarchy and what a database freshly loaded from the edited description shows.
"""
from __future__ import annotations

import io
import itertools
import os
import shutil
import tempfile
from typing import Any, Dict, Iterator, List, Optional, Sequence, Tuple

import odxtools.database  # noqa: F401 -- imported here (run_check has selected the tree already) so that the forked
import odxtools.exceptions  # noqa: F401    children, in which all library code runs, need not import the library again
import odxtools.nameditemlist  # noqa: F401
import odxtools.odxlink  # noqa: F401
import odxtools.writepdxfile  # noqa: F401
from mcx.core import Ctx, Part, digest, isolated, jdump, pmap
from odxmodel import emit_hier as eh
from odxmodel import refinherit as ri

PROPERTY = "C09"
LEVEL = "exploration"

NAMES = ["a", "b"]
# (rank of ECU-SHARED-DATA among the parent types, diag variables of shared data below a PROTOCOL layer): the
# readings a database may follow -- as a whole.  Remove entries to demand one reading.
READINGS = [("highest", "transparent"), ("highest", "opaque"), ("lowest", "transparent"), ("lowest", "opaque")]
BATCH = 16
DDDS_GETTER = {"sfield": "static_fields", "eopfield": "end_of_pdu_fields", "dlfield": "dynamic_length_fields",
               "emfield": "dynamic_endmarker_fields", "mux": "muxs", "dtcdop": "dtc_dops", "envdata": "env_datas",
               "envdesc": "env_data_descs"}


# ---------------------------------------------------------------------------------------------
# reference predictions
# ---------------------------------------------------------------------------------------------
def abstract_locals(case: Dict[str, Any], referable: bool, is_var: bool, equalable: bool = False) -> List[Dict[int, Any]]:
    """Per layer {name index: owner} for one class of categories; owner = index of the defining layer or "LIB"."""
    out: List[Dict[int, Any]] = []
    for i, t in enumerate(case["types"]):
        d: Dict[int, Any] = {}
        if not (is_var and t in eh.NO_VARS):
            for ni, kind in enumerate(case["place"][i]):
                if kind in (1, 4):
                    d[ni] = i
                elif kind == 2 and referable:
                    d[ni] = "LIB"
                elif kind == 3 and equalable:
                    d[ni] = "EQ"  # value-equal in every layer that defines it: one identity for the model
        out.append(d)
    return out


def abstract_excluded(case: Dict[str, Any]) -> Dict[Tuple[int, int], set]:
    out: Dict[Tuple[int, int], set] = {}
    for c, p, n in case.get("excl", []):
        out.setdefault((c, p), set()).add(n)
    return out


def predict(case: Dict[str, Any], prefix: str = "") -> List[Dict[str, Any]]:
    """One prediction per distinct reading: {"reading", "conflicts": [(layer, cat, short name)],
    "views": [per layer {cat: [(short name, marker)]}]}.  Categories that are governed alike (same exclusions,
    same placement kinds) resolve alike, so the model is evaluated once per such class and reading."""
    lnames = eh.layer_names(case, prefix)
    lib = prefix + eh.LIB
    cats = case.get("cats", eh.ALL_CATS)
    types, parents, nms = case["types"], case["parents"], case["names"]
    lists = case.get("excl_lists", eh.EXCL_LISTS)
    prot = [i for i, t in enumerate(types) if t in eh.NO_VARS]
    excl = abstract_excluded(case)
    preds: List[Dict[str, Any]] = []
    seen: Dict[str, int] = {}
    for esd, pv in READINGS:
        memo: Dict[Tuple[bool, bool, bool, bool], Any] = {}
        views: List[Dict[str, List[Tuple[str, str]]]] = [dict() for _ in types]
        conflicts: List[Tuple[int, str, str]] = []
        for cat in cats:
            applies = eh.CATEGORIES[cat][1] in lists and bool(excl)
            cls = (applies, cat in eh.REFERABLE_CATS, cat == "var", cat in eh.EQUALABLE_CATS)
            if cls not in memo:
                memo[cls] = ri.resolve(types, parents, abstract_locals(case, cls[1], cls[2], cls[3]), excl if applies else None, esd=esd,
                                       opaque=prot if (cls[2] and pv == "opaque") else ())
            v, cf = memo[cls]
            for i in range(len(types)):
                if cat in ("svc", "job"):
                    # services and jobs share one name space: `<name>` and `<name>_j` are resolved alike, but in the
                    # layers that swap the kinds (placement 4) `<name>` is the job and `<name>_j` the service
                    other = "job" if cat == "svc" else "svc"
                    row = []
                    for ni, o in v[i].items():
                        if isinstance(o, ri.Conflict):
                            continue
                        if isinstance(o, int) and case["place"][o][ni] == 4:
                            row.append((eh.short_name(other, nms[ni]), eh.marker(lnames[o], eh.SWAPPED[cat], nms[ni])))
                        else:
                            row.append((eh.short_name(cat, nms[ni]), eh.marker(lib if o == "LIB" else lnames[o], cat, nms[ni])))
                    views[i][cat] = sorted(row)
                    continue
                views[i][cat] = sorted((eh.short_name(cat, nms[ni]),
                                        eh.marker(lib if o == "LIB" else eh.EQ if o == "EQ" else lnames[o], cat, nms[ni]))
                                       for ni, o in v[i].items() if not isinstance(o, ri.Conflict))
            conflicts.extend((i, cat, eh.short_name(cat, nms[ni])) for i, ni in cf)
        key = repr((views, conflicts))
        if key in seen:
            preds[seen[key]]["esds"].add(esd)
            continue
        seen[key] = len(preds)
        preds.append({"reading": f"shared-data {esd}, variables through protocols {pv}", "views": views,
                      "conflicts": conflicts, "esds": {esd}})
    return preds


def plain_clash(case: Dict[str, Any]) -> bool:
    """Would the categories WITHOUT a NOT-INHERITED list (functional classes, ...) clash in this placement?"""
    for esd in ("highest", "lowest"):
        if ri.resolve(case["types"], case["parents"], abstract_locals(case, False, False), None, esd=esd)[1]:
            return True
    return False


# ---------------------------------------------------------------------------------------------
# running the real code
# ---------------------------------------------------------------------------------------------
class Loader:
    """Writes the emitted files into a private temp dir and loads them through the public Database API."""

    PREFIX = "c09hier_"

    def __init__(self) -> None:
        self.dir = tempfile.mkdtemp(prefix=f"{self.PREFIX}{os.getpid()}_", dir=self.base())

    @staticmethod
    def base() -> Optional[str]:
        return "/dev/shm" if os.path.isdir("/dev/shm") and os.access("/dev/shm", os.W_OK) else None

    @classmethod
    def sweep(cls) -> None:
        """Remove directories a killed earlier run left behind (their creating process no longer exists)."""
        base = cls.base() or tempfile.gettempdir()
        for fn in os.listdir(base):
            if fn.startswith(cls.PREFIX):
                pid = fn[len(cls.PREFIX):].split("_")[0]
                if pid.isdigit() and not os.path.exists(f"/proc/{pid}"):
                    shutil.rmtree(os.path.join(base, fn), ignore_errors=True)

    def close(self) -> None:
        shutil.rmtree(self.dir, ignore_errors=True)

    def load(self, cases: List[Dict[str, Any]]) -> Any:
        return self.load_files(eh.database_files(cases))

    def add_file(self, db: Any, name: str, xml: str) -> None:
        """Add one more document to a loaded database (no refresh)."""
        os.makedirs(self.dir, exist_ok=True)
        p = os.path.join(self.dir, name)
        with open(p, "w", encoding="utf-8") as f:
            f.write(xml)
        try:
            db.add_odx_file(p)
        finally:
            os.unlink(p)

    def load_files(self, files: Dict[str, str], refresh: bool = True) -> Any:
        import odxtools.exceptions
        from odxtools.database import Database
        odxtools.exceptions.strict_mode = True
        db = Database()
        db.add_auxiliary_file("job.jar", io.BytesIO(b"job"))
        paths = []
        if not os.path.isdir(self.dir):  # (somebody cleaned the temp area under our feet)
            os.makedirs(self.dir, exist_ok=True)
        try:
            for fn, xml in files.items():
                p = os.path.join(self.dir, fn)
                with open(p, "w", encoding="utf-8") as f:
                    f.write(xml)
                paths.append(p)
            for p in paths:
                db.add_odx_file(p)
        finally:
            for p in paths:
                try:
                    os.unlink(p)
                except OSError:
                    pass
        if refresh:
            db.refresh()
        return db


def unprefix(s: Any, prefix: str) -> str:
    s = str(s)
    return s[len(prefix):] if prefix and s.startswith(prefix) else s


def pairs(items: Any, prefix: str = "") -> Optional[List[Tuple[str, str]]]:
    if items is None:
        return None
    return sorted((x.short_name, unprefix(x.long_name, prefix)) for x in items)


_pairs = pairs


def observe(layer: Any, cats: List[str], prefix: str = "") -> Dict[str, Optional[List[Tuple[str, str]]]]:
    """What the public getters of one layer show, per category (None: the layer type has no such getter).
    `prefix`: batch slot prefix of the layer names, removed from the markers."""
    ddds = layer.diag_data_dictionary_spec

    def pairs(items: Any) -> Optional[List[Tuple[str, str]]]:
        return _pairs(items, prefix)

    out: Dict[str, Optional[List[Tuple[str, str]]]] = {}
    for cat in cats:
        if cat == "svc":
            out[cat] = pairs(layer.services)
        elif cat == "job":
            out[cat] = pairs(layer.single_ecu_jobs)
        elif cat == "dop":
            out[cat] = pairs(ddds.data_object_props)
        elif cat == "struct":
            out[cat] = pairs(ddds.structures)
        elif cat == "table":
            out[cat] = pairs(ddds.tables)
        elif cat == "gnr":
            out[cat] = pairs(layer.global_negative_responses)
        elif cat == "fc":
            out[cat] = pairs(getattr(layer, "functional_classes", None))
        elif cat == "sc":
            out[cat] = pairs(getattr(layer, "state_charts", None))
        elif cat == "aa":
            out[cat] = pairs(getattr(layer, "additional_audiences", None))
        elif cat == "ug":
            out[cat] = pairs(ddds.unit_spec.unit_groups) if ddds.unit_spec is not None else []
        elif cat == "var":
            out[cat] = pairs(getattr(layer, "diag_variables", None))
        else:
            out[cat] = pairs(getattr(ddds, DDDS_GETTER[cat]))
    return out


def getter_consistency(layer: Any, cats: List[str]) -> List[Tuple[str, str]]:
    out = []
    if "svc" in cats and "job" in cats:
        a = pairs(layer.diag_comms)
        b = sorted((pairs(layer.services) or []) + (pairs(layer.single_ecu_jobs) or []))
        if a != b:
            out.append(("C09/view/diag_comms/differs-from-services-plus-jobs", f"{layer.short_name}: diag_comms={a} services+jobs={b}"))
    if "svc" in cats and pairs(layer.services) != pairs(layer.diag_services):
        out.append(("C09/view/diag_services/differs-from-services", f"{layer.short_name}"))
    return out


def decode_probe(layer: Any, data: bytes) -> Tuple[str, List[str]]:
    """-> (outcome, markers of the services of the returned messages); outcome 'ok' | 'DecodeError' | other exception name"""
    from odxtools.exceptions import DecodeError
    try:
        msgs = layer.decode(data)
    except DecodeError:
        return "DecodeError", []
    except Exception as e:  # noqa
        return type(e).__name__, [str(e)[:200]]
    return "ok", sorted({str(m.service.long_name) for m in msgs})


def unprefixed(found: List[str], prefix: str) -> List[str]:
    return sorted(unprefix(f, prefix) for f in found)


def service_objects(case: Dict[str, Any], lnames: List[str], lib: str) -> List[Tuple[str, bytes]]:
    """(marker, request bytes) of every service object that exists somewhere in the hierarchy."""
    out = []
    for ni, nm in enumerate(case["names"]):
        for i in range(len(case["types"])):
            if case["place"][i][ni] == 1:
                out.append((eh.marker(lnames[i], "svc", nm), eh.request_bytes(ni, i)))
            elif case["place"][i][ni] == 4:
                out.append((eh.marker(lnames[i], eh.SWAPPED["svc"], nm), eh.request_bytes(ni, i, swapped=True)))
        if any(row[ni] == 2 for row in case["place"]):
            out.append((eh.marker(lib, "svc", nm), eh.request_bytes(ni, 0xEE)))
    return out


# ---------------------------------------------------------------------------------------------
# oracle
# ---------------------------------------------------------------------------------------------
def layer_of_marker(m: str) -> str:
    return m.split(":", 1)[0]


def classify_diffs(case: Dict[str, Any], pred: Dict[str, Any], obs: List[Dict[str, Any]], lnames: List[str]) -> List[Tuple[str, str]]:
    out: List[Tuple[str, str]] = []
    types, parents = case["types"], case["parents"]
    for i, lname in enumerate(lnames):
        for cat, exp in pred["views"][i].items():
            got = obs[i].get(cat)
            if got is None or got == exp:
                continue
            where = f"layer {lname} ({types[i]}) category {cat}: expected {exp}, observed {got} [{pred['reading']}]"
            gnames = [sn for sn, _ in got]
            if len(set(gnames)) != len(gnames):
                out.append((f"C09/view/{cat}/duplicate-short-name", where))
                continue
            e, g = dict(exp), dict(got)
            for sn in sorted(set(e) | set(g)):
                if e.get(sn) == g.get(sn):
                    continue

                def via(marker: Optional[str]) -> str:
                    if marker is None:
                        return "none"
                    if layer_of_marker(marker) == lname or (layer_of_marker(marker) == eh.EQ and (sn, marker) not in
                                                            [x for p in parents[i] for x in pred["views"][p].get(cat, [])]):
                        return "local"
                    ts = sorted({types[p] for p in parents[i] if (sn, marker) in pred["views"][p].get(cat, [])})
                    return "+".join(ts) if ts else "not-offered-by-any-parent"

                governed = eh.CATEGORIES[cat][1]
                base = sn[:-len(eh.CATEGORIES[cat][0])] if eh.CATEGORIES[cat][0] else sn
                if cat in ("svc", "job"):
                    base = sn[:-2] if sn.endswith("_j") else sn
                excl_here = any(c == i and case["names"][n] == base for c, p, n in case.get("excl", []))
                applies = excl_here and governed in case.get("excl_lists", eh.EXCL_LISTS)
                if sn not in g:
                    v = via(e[sn])
                    if v == "local":
                        out.append((f"C09/view/{cat}/missing-local", where))
                    elif excl_here and not applies:
                        out.append((f"C09/view/{cat}/hidden-by-exclusion-list-of-another-category", where))
                    else:
                        out.append((f"C09/view/{cat}/missing-inherited/via-{v}", where))
                elif sn not in e:
                    kind = "excluded-still-visible" if applies else "extra"
                    out.append((f"C09/view/{cat}/{kind}", where + f" (the observed object reaches the layer via {via(g[sn])})"))
                elif via(e[sn]) == "local":
                    out.append((f"C09/view/{cat}/inherited-overrides-local", where))
                else:
                    out.append((f"C09/view/{cat}/wrong-parent-wins/expected-via-{via(e[sn])}/observed-via-{via(g[sn])}", where))
    return out


def judge_loaded(case: Dict[str, Any], preds: List[Dict[str, Any]], db: Any, prefix: str, part: Optional[Part],
                 info: Optional[Dict[str, Any]] = None) -> List[Tuple[str, str]]:
    """The database loaded: compare every layer with the predictions (made for unprefixed layer names), then
    probe decode()."""
    lnames = eh.layer_names(case)
    cats = case.get("cats", eh.ALL_CATS)
    layers = [db.diag_layers[prefix + n] for n in lnames]
    obs = [observe(l, cats, prefix) for l in layers]
    out: List[Tuple[str, str]] = []
    for l in layers:
        out.extend(getter_consistency(l, cats))
    ok_preds = [p for p in preds if not p["conflicts"]]
    if not ok_preds:
        c = preds[0]["conflicts"][0]
        return out + [(f"C09/conflict/{c[1]}/not-reported",
                       f"strict-mode load succeeded although layer {lnames[c[0]]} inherits different objects named {c[2]!r} "
                       f"from equal-priority parents ({len(preds[0]['conflicts'])} unresolved clashes, every reading)")]
    best, best_diffs = None, None
    matched_esds: set = set()
    for p in ok_preds:
        d = classify_diffs(case, p, obs, lnames)
        if best_diffs is None or len(d) < len(best_diffs):
            best, best_diffs = p, d
        if not d:
            matched_esds |= p["esds"]
    assert best is not None and best_diffs is not None
    out.extend(best_diffs)
    if len(matched_esds) == 1 and info is not None:
        info["esd_only"] = next(iter(matched_esds))  # the observation fits one rank of shared data only
    if part is not None:
        part.count("layer_views_compared", len(layers))
        part.count("category_views_compared", sum(1 for o in obs for v in o.values() if v is not None))
        if len(preds) > 1:
            part.count("three_valued_cases")
    if best_diffs or "svc" not in cats:
        return out
    # behaviour: decode() of every service object's request in every layer
    for i, l in enumerate(layers):
        visible = {m for _, m in best["views"][i]["svc"]}
        for m, data in service_objects(case, lnames, eh.LIB):
            outcome, found = decode_probe(l, data)
            found = unprefixed(found, prefix) if outcome == "ok" else found
            if part is not None:
                part.count("decode_calls")
            if outcome not in ("ok", "DecodeError"):
                out.append((f"C09/decode/raises-{outcome}", f"{lnames[i]}.decode({data.hex()}) raised {outcome}: {found}"))
            elif m in visible:
                if part is not None:
                    part.count("decode_found")
                if found != [m]:
                    out.append(("C09/decode/visible-service-not-found" if m not in found else "C09/decode/additional-services-found",
                                f"{lnames[i]}.decode({data.hex()}) -> {outcome} {found}, expected the visible service {m}"))
            else:
                if part is not None:
                    part.count("decode_rejected")
                if m in found:
                    out.append(("C09/decode/invisible-service-found",
                                f"{lnames[i]}.decode({data.hex()}) found {m}, which is not visible in {lnames[i]}"))
    return out


def judge_error(case: Dict[str, Any], preds: List[Dict[str, Any]], exc: BaseException, prefix: str,
                info: Optional[Dict[str, Any]] = None) -> List[Tuple[str, str]]:
    from odxtools.exceptions import OdxError
    if not isinstance(exc, OdxError):
        return [(f"C09/load/raises-{type(exc).__name__}", f"loading raised {type(exc).__name__}: {str(exc)[:300]}")]
    if any(p["conflicts"] for p in preds):
        esds: set = set()
        for p in preds:
            if p["conflicts"]:
                esds |= p["esds"]
        if len(esds) == 1 and info is not None:
            info["esd_only"] = next(iter(esds))
        return []
    return [("C09/conflict/spurious-error", f"strict-mode load raised {type(exc).__name__}: {str(exc)[:300]} although no reading "
             f"predicts an unresolved clash")]


def run_single(loader: Loader, case: Dict[str, Any], part: Optional[Part] = None,
               info: Optional[Dict[str, Any]] = None) -> Tuple[List[Tuple[str, str]], str]:
    """-> (problems, outcome 'loaded' | 'error')"""
    preds = predict(case)
    files = eh.database_files([case])  # (emission problems are harness errors, not findings: outside the try)
    try:
        db = loader.load_files(files)
    except Exception as e:  # noqa
        return judge_error(case, preds, e, "", info), "error"
    return judge_loaded(case, preds, db, "", part, info), "loaded"


def outcome_digest(case: Dict[str, Any], preds: List[Dict[str, Any]], outcome: str) -> Optional[str]:
    """Digest of a non-trivial configuration (something is inherited, excluded, overridden or clashes)."""
    p = preds[0]
    src = []
    trivial = True
    lnames = eh.layer_names(case)
    cat = "svc" if "svc" in p["views"][0] else sorted(p["views"][0])[0]
    type_of = dict(zip(lnames, case["types"]))
    for i in range(len(lnames)):
        row = []
        for sn, m in p["views"][i][cat]:
            owner = layer_of_marker(m)
            row.append((sn, "local" if owner == lnames[i] else type_of.get(owner, "lib")))
            if owner != lnames[i]:
                trivial = False
        src.append(row)
    if p["conflicts"] or case.get("excl"):
        trivial = False
    if trivial:
        return None
    return digest([case["types"], case["parents"], src, sorted(case.get("excl", [])), bool(p["conflicts"]), outcome,
                   sorted(case.get("excl_lists", [])), len(case.get("cats", []))])


# ---------------------------------------------------------------------------------------------
# enumeration
# ---------------------------------------------------------------------------------------------
def exclusion_sets(parents: Sequence[Sequence[int]], place: Sequence[Sequence[int]], k: int,
                   max_excl: Optional[int] = None) -> Iterator[List[List[int]]]:
    """All NOT-INHERITED sets (optionally: with at most max_excl entries): (child, parent, name) may be excluded
    iff the parent's view offers the name."""
    n = len(parents)

    def rec(i: int, present: List[set], acc: List[List[int]]) -> Iterator[List[List[int]]]:
        if i == n:
            yield list(acc)
            return
        slots = [[i, p, nm] for p in parents[i] for nm in range(k) if nm in present[p]]
        for bits in itertools.product((0, 1), repeat=len(slots)):
            ex = [s for s, b in zip(slots, bits) if b]
            if max_excl is not None and len(acc) + len(ex) > max_excl:
                continue
            pr = {nm for nm in range(k) if place[i][nm]}
            for p in parents[i]:
                pr |= {nm for nm in present[p] if [i, p, nm] not in ex}
            yield from rec(i + 1, present + [pr], acc + ex)

    yield from rec(0, [], [])


def configurations(types: Sequence[str], parents: Sequence[Sequence[int]], k: int, kinds: Tuple[int, ...] = (0, 1, 2),
                   skew: bool = True, full: bool = False, max_excl: Optional[int] = None,
                   require: Optional[int] = None) -> Iterator[Dict[str, Any]]:
    """All cases over one hierarchy with k names (see module docstring); names are interchangeable, so of two
    cases that differ only by swapping the names one is kept."""
    n = len(types)
    base = {"types": list(types), "parents": [list(p) for p in parents], "names": NAMES[:k]}
    profile = list(eh.FULL_CATS if full else eh.ALL_CATS)
    for flat in itertools.product(kinds, repeat=n * k):
        place = [list(flat[i * k:(i + 1) * k]) for i in range(n)]
        cols = [tuple(place[i][nm] for i in range(n)) for nm in range(k)]
        if any(not any(c) for c in cols):
            continue
        if require is not None and not any(require in c for c in cols):
            continue  # (a space that only adds the placements containing one kind to another space)
        has_ref = any(2 in c for c in cols)
        if any(3 in c for c in cols):
            # value-equal unit groups: only the unit groups are instantiated (no NOT-INHERITED list governs them)
            if not has_ref and not (k == 2 and cols[0] > cols[1]):
                yield dict(base, place=place, excl=[], excl_lists=list(eh.EXCL_LISTS), cats=list(eh.EQUALABLE_CATS))
            continue
        has_swap = any(4 in c for c in cols)
        clash = None if (has_ref or has_swap) else plain_clash(dict(base, place=place))
        for excl in exclusion_sets(parents, place, k, max_excl):
            if k == 2:
                ka = (cols[0], sorted((c, p) for c, p, nm in excl if nm == 0))
                kb = (cols[1], sorted((c, p) for c, p, nm in excl if nm == 1))
                if ka > kb:
                    continue
            case = dict(base, place=place, excl=excl, excl_lists=list(eh.EXCL_LISTS))
            if has_ref or has_swap:
                # (library references exist for services, jobs and variables only; swapping the short names of
                # service and job concerns these two kinds only -- the other categories would just repeat kind 1)
                case["cats"] = list(eh.REFERABLE_CATS)
                yield case
                continue
            case["cats"] = list(profile)
            if not excl:
                yield case
                continue
            # objects of the categories without a NOT-INHERITED list ignore `excl`; if they clash, the load
            # fails for their sake and would hide what the exclusions do -> leave them out in that case
            if clash:
                case["cats"] = [c for c in profile if c in eh.EXCLUDABLE_CATS]
                yield case
                continue
            yield case
            if skew:
                # the five NOT-INHERITED-* lists are independent: give `excl` to some lists only (three splits
                # that separate every pair of lists), all other lists stay empty
                for lists in (["comms", "tables", "vars"], ["dops", "tables"], ["gnrs", "vars"]):
                    yield dict(case, excl_lists=lists)


# ---------------------------------------------------------------------------------------------
# work units
# ---------------------------------------------------------------------------------------------
def _bookkeeping(part: Part, case: Dict[str, Any], preds: List[Dict[str, Any]], outcome: str) -> None:
    part.count("evaluations")
    part.count("hierarchies_" + outcome)
    d = outcome_digest(case, preds, outcome)
    if d is not None:
        part.add("nontrivial", d)
    for t in ri.shape_tags(case["types"], case["parents"]):
        part.add("shapes", t)
    part.add("layer_counts", len(case["types"]))
    for c in case["cats"]:
        part.add("categories", c)
    if outcome == "loaded":
        for i, ps in enumerate(case["parents"]):
            for p_ in ps:
                for ni in range(len(case["names"])):
                    if {case["place"][i][ni], case["place"][p_][ni]} == {1, 4}:
                        part.count("cross_kind_overrides")
    if any(3 in row for row in case["place"]):
        part.count("cases_with_value_equal_objects")
        for i, ps in enumerate(case["parents"]):
            for a, b in itertools.combinations(ps, 2):
                for ni in range(len(case["names"])):
                    if case["types"][a] == case["types"][b] and case["place"][a][ni] == 3 == case["place"][b][ni] \
                            and not case["place"][i][ni] and outcome == "loaded":
                        part.count("value_equal_objects_from_equal_priority_parents_loaded")
    if case["excl"]:
        part.count("cases_with_exclusions")
    if len(case["excl_lists"]) < len(eh.EXCL_LISTS):
        part.count("cases_with_partial_exclusion_lists")


def _note_rank(part: Part, case: Dict[str, Any], info: Dict[str, Any]) -> None:
    # which rank of shared data the tree implements must be the same everywhere (checked in run())
    r = info.get("esd_only")
    if r is not None:
        part.count("databases_fitting_shared_data_" + r + "_only")
        if "esd_only_" + r not in part.sets:
            part.add("esd_only_" + r, jdump(case))


def _evaluate_single(part: Part, loader: Loader, case: Dict[str, Any], preds: List[Dict[str, Any]]) -> None:
    info: Dict[str, Any] = {}
    probs, outcome = run_single(loader, case, part, info)
    _note_rank(part, case, info)
    for key, detail in probs:
        part.violation(key, case, detail)
    _bookkeeping(part, case, preds, outcome)
    part.count("databases_loaded")


def evaluate_items(loader: Loader, items: List[Tuple[Dict[str, Any], List[Dict[str, Any]]]], files: Dict[str, str]) -> Part:
    """Runs in a forked child of a worker that never executes library code itself (mcx.core.isolated): one case
    with a predicted clash, or a batch of cases that are all predicted to load, in one database."""
    part = Part()
    if len(items) == 1:
        _evaluate_single(part, loader, items[0][0], items[0][1])
        return part
    cases = [c for c, _ in items]
    try:
        db = loader.load_files(files)
    except Exception:  # noqa -- some member fails although none should: find it
        for c, p in items:
            _evaluate_single(part, loader, c, p)
        return part
    part.count("databases_loaded")
    for slot, (c, p) in enumerate(items):
        prefix = f"k{slot}_"
        info: Dict[str, Any] = {}
        probs = judge_loaded(c, p, db, prefix, part, info)
        _note_rank(part, c, info)
        if probs:
            # believe a batched finding only if the hierarchy alone shows it too
            probs1, outcome1 = run_single(loader, c, None)
            keys1 = {k for k, _ in probs1}
            for key, detail in probs1:
                part.violation(key, c, detail)
            for key, detail in probs:
                if key not in keys1:
                    part.violation("C09/batch/finding-only-in-shared-database", {"batch": cases, "slot": slot}, f"{key}: {detail}")
        _bookkeeping(part, c, p, "loaded")
    return part


def _merge_child(part: Part, sub: Part) -> None:
    part.merge(sub)
    for r in ("highest", "lowest"):  # one example per unit is enough
        ex = part.sets.get("esd_only_" + r)
        if ex and len(ex) > 1:
            part.sets["esd_only_" + r] = {min(ex, key=lambda x: (len(x), x))}


def explore_unit(unit: Tuple[Any, ...]) -> Part:
    """Enumerates the cases of one (hierarchy, shard) and emits their XML; everything that executes library code
    happens in forked children (one per database), so that no outcome depends on what the process did before."""
    types, parents, k, kinds, skew, full, max_excl, shard, nshards = unit[:9]
    require = unit[9] if len(unit) > 9 else None
    part = Part()
    loader = Loader()
    try:
        batch: List[Tuple[Dict[str, Any], List[Dict[str, Any]]]] = []

        def go(items: List[Tuple[Dict[str, Any], List[Dict[str, Any]]]]) -> None:
            if items:
                _merge_child(part, isolated(evaluate_items, loader, list(items), eh.database_files([c for c, _ in items])))

        idx = 0
        for case in configurations(types, parents, k, kinds, skew, full, max_excl, require):
            idx += 1
            if idx % nshards != shard:
                continue
            preds = predict(case)
            if len(part.samples) < 1 and case["excl"] and len(case["types"]) > 2:
                part.sample({"case": case, "expected_service_view_per_layer": [v.get("svc") for v in preds[0]["views"]],
                             "unresolved_clashes": preds[0]["conflicts"], "readings": len(preds)}, limit=1)
            if any(p["conflicts"] for p in preds):
                go([(case, preds)])
            else:
                batch.append((case, preds))
                if len(batch) >= BATCH:
                    go(batch)
                    batch = []
        go(batch)
    finally:
        loader.close()
    return part


def full_observation(db: Any, case: Dict[str, Any], prefix: str, keep: List[int]) -> List[Any]:
    """Rich observation of the layers `keep`: per category (short name, marker, local ID) + decode outcomes."""
    lnames = eh.layer_names(case, prefix)
    out = []
    for i in keep:
        l = db.diag_layers[lnames[i]]
        o: Dict[str, Any] = {}
        for cat in case["cats"]:
            ddds = l.diag_data_dictionary_spec
            if cat in DDDS_GETTER:
                items = getattr(ddds, DDDS_GETTER[cat])
            else:
                items = {"svc": lambda: l.services, "job": lambda: l.single_ecu_jobs, "gnr": lambda: l.global_negative_responses,
                         "dop": lambda: ddds.data_object_props, "struct": lambda: ddds.structures, "table": lambda: ddds.tables,
                         "fc": lambda: getattr(l, "functional_classes", []), "sc": lambda: getattr(l, "state_charts", []),
                         "aa": lambda: getattr(l, "additional_audiences", []),
                         "ug": lambda: (ddds.unit_spec.unit_groups if ddds.unit_spec else []),
                         "var": lambda: getattr(l, "diag_variables", [])}[cat]()
            o[cat] = sorted((x.short_name, str(x.long_name).replace(prefix, "", 1),
                             str(getattr(getattr(x, "odx_id", None), "local_id", "")).replace(prefix, "", 1)) for x in items)
        o["decode"] = []
        if "svc" in case["cats"]:
            for ni in range(len(case["names"])):
                for who in keep + [0xEE]:  # (requests of the layers that exist in both databases)
                    oc, found = decode_probe(l, eh.request_bytes(ni, who))
                    o["decode"].append((ni, who, oc, [f.replace(prefix, "", 1) for f in found]))
        out.append(o)
    return out


def without_layer(case: Dict[str, Any], drop: int) -> Dict[str, Any]:
    """The same database without layer `drop` (a layer nobody references); layer names keep their indices only
    if drop is the last layer, so callers drop the last layer or compare by position."""
    keep = [i for i in range(len(case["types"])) if i != drop]
    ren = {old: new for new, old in enumerate(keep)}
    return {"types": [case["types"][i] for i in keep], "parents": [[ren[p] for p in case["parents"][i]] for i in keep],
            "names": case["names"], "place": [case["place"][i] for i in keep],
            "excl": [[ren[c], ren[p], n] for c, p, n in case["excl"] if c != drop],
            "excl_lists": case["excl_lists"], "cats": case["cats"]}


def parent_view_problems(loader: Loader, case: Dict[str, Any], part: Optional[Part]) -> List[Tuple[str, str]]:
    """Third clause, literally: load the hierarchy and the hierarchy without its last childless layer into two
    databases and compare what the remaining layers show."""
    n = len(case["types"])
    referenced = {p for ps in case["parents"] for p in ps}
    sinks = [i for i in range(n) if i not in referenced]
    if n < 2 or (n - 1) not in sinks:
        return []
    small = without_layer(case, n - 1)
    if any(p["conflicts"] for p in predict(case)) or any(p["conflicts"] for p in predict(small)):
        return []
    keep = list(range(n - 1))
    try:
        a = full_observation(loader.load([case]), case, "", keep)
        b = full_observation(loader.load([small]), small, "", keep)
    except Exception as e:  # noqa -- load problems are the business of the main phase
        return []
    if part is not None:
        part.count("parent_view_comparisons", len(keep))
    out = []
    for i in keep:
        if a[i] != b[i]:
            cat = next(c for c in a[i] if a[i][c] != b[i][c])
            out.append((f"C09/parent-view/{cat}/altered-by-child",
                        f"layer {i} ({case['types'][i]}) shows {a[i][cat]} with the child layer {n - 1} present and {b[i][cat]} without it"))
    return out


def _parent_case(loader: Loader, case: Dict[str, Any]) -> Part:
    part = Part()
    probs = parent_view_problems(loader, case, part)
    part.count("parent_view_cases")
    for key, detail in probs:
        part.violation(key, dict(case, mode="parent-view"), detail)
    return part


def parent_unit(unit: Tuple[Any, ...]) -> Part:
    types, parents, k, kinds = unit
    part = Part()
    loader = Loader()
    try:
        for case in configurations(types, parents, k, kinds, skew=False):
            part.merge(isolated(_parent_case, loader, case))
    finally:
        loader.close()
    return part


# ---------------------------------------------------------------------------------------------
# re-resolution: edit the loaded object graph, Database.refresh(), compare with the model of the EDITED hierarchy
# ---------------------------------------------------------------------------------------------
RAW_ATTR = {"gnr": "global_negative_responses", "fc": "functional_classes", "sc": "state_charts", "aa": "additional_audiences"}
DDDS_ATTR = dict(DDDS_GETTER, dop="data_object_props", struct="structures", table="tables")


def edit_menu(case: Dict[str, Any]) -> List[List[Any]]:
    """Every single edit: drop the objects of one (layer, name) placement; drop one PARENT-REF; add one
    NOT-INHERITED entry (to the lists of the case) for a name the parent offers and that is not excluded yet."""
    n, k = len(case["types"]), len(case["names"])
    out: List[List[Any]] = []
    for i in range(n):
        for ni in range(k):
            if case["place"][i][ni]:
                out.append(["remove-objects", i, ni])
    for i in range(n):
        for p in case["parents"][i]:
            out.append(["remove-parent-ref", i, p])
    present: List[set] = []
    for i in range(n):
        pr = {ni for ni in range(k) if case["place"][i][ni]}
        for p in case["parents"][i]:
            for ni in sorted(present[p]):
                if [i, p, ni] not in case["excl"]:
                    out.append(["add-not-inherited", i, p, ni])
            pr |= {ni for ni in present[p] if [i, p, ni] not in case["excl"]}
        present.append(pr)
    return out


def edited_case(case: Dict[str, Any], edit: List[Any]) -> Dict[str, Any]:
    c = dict(case, place=[list(r) for r in case["place"]], parents=[list(p) for p in case["parents"]],
             excl=[list(e) for e in case["excl"]])
    if edit[0] == "remove-objects":
        c["place"][edit[1]][edit[2]] = 0
    elif edit[0] == "remove-parent-ref":
        c["parents"][edit[1]].remove(edit[2])
        c["excl"] = [e for e in c["excl"] if not (e[0] == edit[1] and e[1] == edit[2])]
    elif edit[0] == "add-not-inherited":
        c["excl"].append([edit[1], edit[2], edit[3]])
    return c


def apply_edit(db: Any, case: Dict[str, Any], edit: List[Any]) -> List[Tuple[Any, str, Any]]:
    """Perform the edit on the loaded object graph (raw layer data only); -> undo list [(object, attribute, old value)]."""
    from odxtools.nameditemlist import NamedItemList
    from odxtools.odxlink import OdxLinkRef
    undo: List[Tuple[Any, str, Any]] = []
    if edit[0] == "none":
        return undo
    lnames = eh.layer_names(case)
    raw = db.diag_layers[lnames[edit[1]]].diag_layer_raw
    cats = case["cats"]

    def put(obj: Any, attr: str, value: Any) -> None:
        undo.append((obj, attr, getattr(obj, attr)))
        setattr(obj, attr, value)

    if edit[0] == "remove-objects":
        nm = case["names"][edit[2]]

        def hit(x: Any, cs: List[str]) -> bool:
            if isinstance(x, OdxLinkRef):
                return any(x.ref_id.endswith("." + eh.spec_name(c, nm)) for c in cs)
            return x.short_name in [eh.short_name(c, nm) for c in cs]

        comm_cats = [c for c in ("svc", "job") if c in cats]
        if comm_cats:
            put(raw, "diag_comms_raw", [x for x in raw.diag_comms_raw if not hit(x, comm_cats)])
        if "var" in cats and hasattr(raw, "diag_variables_raw"):
            put(raw, "diag_variables_raw", [x for x in raw.diag_variables_raw if not hit(x, ["var"])])
        for c, attr in RAW_ATTR.items():
            if c in cats:
                put(raw, attr, NamedItemList([x for x in getattr(raw, attr) if not hit(x, [c])]))
        ddds = raw.diag_data_dictionary_spec
        if ddds is not None:
            for c, attr in DDDS_ATTR.items():
                if c in cats:
                    put(ddds, attr, NamedItemList([x for x in getattr(ddds, attr) if not hit(x, [c])]))
            if "ug" in cats and ddds.unit_spec is not None:
                put(ddds.unit_spec, "unit_groups", NamedItemList([x for x in ddds.unit_spec.unit_groups if not hit(x, ["ug"])]))
    else:
        prs = [pr for pr in raw.parent_refs if pr.layer_ref.ref_id == lnames[edit[2]]]
        assert len(prs) == 1, "harness: PARENT-REF not found"
        if edit[0] == "remove-parent-ref":
            put(raw, "parent_refs", [pr for pr in raw.parent_refs if pr is not prs[0]])
        else:
            nm = case["names"][edit[3]]
            attr_of = {"comms": "not_inherited_diag_comms", "dops": "not_inherited_dops", "tables": "not_inherited_tables",
                       "gnrs": "not_inherited_global_neg_responses", "vars": "not_inherited_variables"}
            for lst in case["excl_lists"]:
                sn = [eh.short_name(c, nm) for c, (_, gov) in eh.CATEGORIES.items() if gov == lst and c in cats]
                if sn:
                    put(prs[0], attr_of[lst], list(getattr(prs[0], attr_of[lst])) + sn)
    return undo


def refresh_problems(loader: Loader, case: Dict[str, Any], edits: List[List[Any]], part: Optional[Part],
                     differential: bool = True) -> List[Tuple[int, str, str]]:
    """Load `case`, then for every edit in turn: apply it, db.refresh(), judge all layers against the model of the
    edited case (and against a fresh load of the edited case), undo it.  -> [(edit index, key, detail)]"""
    if any(p["conflicts"] for p in predict(case)):
        return []
    try:
        db = loader.load([case])
    except Exception:  # noqa -- business of the main phase
        return []
    n = len(case["types"])
    out: List[Tuple[int, str, str]] = []
    fresh_wanted: List[Tuple[int, Dict[str, Any], Any]] = []
    for ei, edit in enumerate(edits):
        ec = edited_case(case, edit)
        preds = predict(ec)
        undo = apply_edit(db, case, edit)
        tag = f"C09/refresh/{edit[0]}/"
        try:
            db.refresh()
        except Exception as e:  # noqa
            probs = judge_error(ec, preds, e, "")
            outcome = "error"
        else:
            probs = judge_loaded(ec, preds, db, "", None)
            outcome = "loaded"
            if differential and not probs and not any(p["conflicts"] for p in preds):
                fresh_wanted.append((ei, ec, full_observation(db, ec, "", list(range(n)))))
        for key, detail in probs:
            # (one key per edit kind, category and kind of deviation; the parent-type detail stays in the text)
            key = tag + ("decode-stale" if key.startswith("C09/decode/") else "/".join(key[len("C09/"):].split("/")[:3]))
            out.append((ei, key, f"after {edit} and refresh(): {detail}"))
        if part is not None:
            part.count("refresh_evaluations")
            part.count("refresh_" + outcome)
            part.add("refresh_edit_kinds", edit[0])
        for obj, attr, old in reversed(undo):
            setattr(obj, attr, old)
    # differential oracle: the refreshed database shows what a database freshly loaded from the edited case shows
    for lo in range(0, len(fresh_wanted), BATCH):
        chunk = fresh_wanted[lo:lo + BATCH]
        try:
            fdb = loader.load([ec for _, ec, _ in chunk])
        except Exception:  # noqa -- business of the main phase
            continue
        for slot, (ei, ec, seen) in enumerate(chunk):
            prefix = f"k{slot}_" if len(chunk) > 1 else ""
            fresh = full_observation(fdb, ec, prefix, list(range(n)))
            if part is not None:
                part.count("refresh_differential_comparisons")
            for i in range(n):
                if seen[i] != fresh[i]:
                    cat = next(c for c in seen[i] if seen[i][c] != fresh[i][c])
                    out.append((ei, f"C09/refresh/{edits[ei][0]}/" + ("decode-stale" if cat == "decode" else f"differs-from-fresh-load/{cat}"),
                                f"after {edits[ei]} and refresh() layer {i} ({case['types'][i]}) shows {seen[i][cat]}, a database "
                                f"loaded from the edited description shows {fresh[i][cat]}"))
                    break
    return out


def _refresh_case(loader: Loader, case: Dict[str, Any], edits: List[List[Any]], differential: bool) -> Tuple[List[Tuple[int, str, str]], Part]:
    sub = Part()
    return refresh_problems(loader, case, edits, sub, differential), sub


def refresh_unit(unit: Tuple[Any, ...]) -> Part:
    types, parents, k, kinds, full, differential, require = unit
    part = Part()
    loader = Loader()
    try:
        for case in configurations(types, parents, k, kinds, False, full, None, require):
            edits = [["none"]] + edit_menu(case)
            found, sub = isolated(_refresh_case, loader, case, edits, differential)
            part.merge(sub)
            part.count("refresh_cases")
            done = set()
            for ei, key, detail in found:
                if (ei, key) in done:
                    continue
                done.add((ei, key))
                # a finding of the edit sequence is reported for the single edit (on a database that was used:
                # refreshed and probed once before the edit) if that alone shows it
                single = [["none"]] + ([edits[ei]] if ei else [])
                alone = isolated(refresh_problems, loader, case, single, None)
                if any(k2 == key for _, k2, _ in alone):
                    part.violation(key, {"mode": "refresh", "case": case, "edits": single}, detail)
                else:
                    part.violation(key + "/only-after-earlier-edits", {"mode": "refresh", "case": case, "edits": edits[:ei + 1],
                                                                      "at": ei, "key": key}, detail)
    finally:
        loader.close()
    return part


# ---------------------------------------------------------------------------------------------
# one DIAG-LAYER-CONTAINER document per layer, PARENT-REFs across documents, both document orders
# ---------------------------------------------------------------------------------------------
ORDERS = {"parents-first": False, "children-first": True}


def split_problems(loader: Loader, case: Dict[str, Any], orders: List[str], part: Optional[Part]) -> List[Tuple[str, str, str]]:
    """-> [(order, key, detail)]: the hierarchy spread over one document per layer must give what the model says
    and what the single-document database shows, whatever the order in which the documents are added."""
    preds = predict(case)
    n = len(case["types"])
    reference = None
    if not any(p["conflicts"] for p in preds):
        try:
            reference = full_observation(loader.load([case]), case, "", list(range(n)))
        except Exception:  # noqa -- business of the main phase
            reference = None
    out: List[Tuple[str, str, str]] = []
    for order in orders:
        files = dict(eh.split_files(case, ORDERS[order]))
        tag = f"C09/split-containers/{order}/"
        try:
            db = loader.load_files(files)
        except Exception as e:  # noqa
            probs = judge_error(case, preds, e, "")
            outcome = "error"
        else:
            probs = judge_loaded(case, preds, db, "", None)
            outcome = "loaded"
            if not probs and reference is not None:
                seen = full_observation(db, case, "", list(range(n)))
                for i in range(n):
                    if seen[i] != reference[i]:
                        cat = next(c for c in seen[i] if seen[i][c] != reference[i][c])
                        probs.append((f"C09/differs-from-single-container/{cat}",
                                      f"layer {i} ({case['types'][i]}) shows {seen[i][cat]}, in one container {reference[i][cat]}"))
                        break
        for key, detail in probs:
            out.append((order, tag + "/".join(key[len("C09/"):].split("/")[:3]), f"documents {order}: {detail}"))
        if part is not None:
            part.count("split_container_evaluations")
            part.count("split_container_" + outcome)
            part.add("split_orders", order)
    return out


def _split_case(loader: Loader, case: Dict[str, Any]) -> Part:
    part = Part()
    for order, key, detail in split_problems(loader, case, list(ORDERS), part):
        part.violation(key, {"mode": "split", "case": case, "order": order}, detail)
    return part


def split_unit(unit: Tuple[Any, ...]) -> Part:
    types, parents, k, kinds = unit
    part = Part()
    loader = Loader()
    try:
        for case in configurations(types, parents, k, kinds, False, False):
            part.merge(isolated(_split_case, loader, case))
    finally:
        loader.close()
    return part


# ---------------------------------------------------------------------------------------------
# a parent layer's document is replaced by a new revision with the same IDs; PDX write + reload
# ---------------------------------------------------------------------------------------------
def replace_menu(case: Dict[str, Any]) -> List[List[Any]]:
    """["replace-container", layer, name, new placement kind]: the document of a layer somebody references is
    removed from the database and a revision in which one placement is toggled (absent <-> local) is added."""
    referenced = sorted({p for ps in case["parents"] for p in ps})
    return [["replace-container", p, ni, 0 if case["place"][p][ni] else 1] for p in referenced for ni in range(len(case["names"]))]


def replace_problems(loader: Loader, case: Dict[str, Any], edit: List[Any], part: Optional[Part]) -> List[Tuple[str, str]]:
    if any(p["conflicts"] for p in predict(case)):
        return []
    try:
        db = loader.load_files(dict(eh.split_files(case, False)))
    except Exception:  # noqa -- business of the split-container phase
        return []
    _, li, ni, kind = edit
    ec = dict(case, place=[list(r) for r in case["place"]])
    ec["place"][li][ni] = kind
    if not any(ec["place"][i][ni] for i in range(len(ec["types"]))):
        pass  # (the name vanishes altogether: fine, every view loses it)
    preds = predict(ec)
    lname = eh.layer_names(case)[li]
    new_docs = dict(eh.split_files(ec, False))
    db.diag_layer_containers.remove(db.diag_layer_containers["D_" + lname])
    loader.add_file(db, "D_" + lname + ".odx-d", new_docs["D_" + lname + ".odx-d"])
    n = len(case["types"])
    try:
        db.refresh()
    except Exception as e:  # noqa
        probs = judge_error(ec, preds, e, "")
        outcome = "error"
    else:
        probs = judge_loaded(ec, preds, db, "", None)
        outcome = "loaded"
        if not probs and not any(p["conflicts"] for p in preds):
            try:
                fresh = full_observation(loader.load_files(new_docs), ec, "", list(range(n)))
            except Exception:  # noqa
                fresh = None
            seen = full_observation(db, ec, "", list(range(n)))
            if fresh is not None and seen != fresh:
                i = next(i for i in range(n) if seen[i] != fresh[i])
                cat = next(c for c in seen[i] if seen[i][c] != fresh[i][c])
                probs.append((f"C09/differs-from-fresh-load/{cat}", f"layer {i} shows {seen[i][cat]}, a fresh load of the new documents {fresh[i][cat]}"))
    if part is not None:
        part.count("replace_container_evaluations")
        part.count("replace_container_" + outcome)
    return [("C09/replace-container/" + "/".join(k[len("C09/"):].split("/")[:3]),
             f"after the document of layer {lname} was replaced by a revision ({edit}) and refresh(): {d}") for k, d in probs]


def _replace_case(loader: Loader, case: Dict[str, Any], edit: List[Any]) -> Part:
    part = Part()
    for key, detail in replace_problems(loader, case, edit, part):
        part.violation(key, {"mode": "replace", "case": case, "edit": edit}, detail)
    return part


def replace_unit(unit: Tuple[Any, ...]) -> Part:
    types, parents, k, kinds = unit
    part = Part()
    loader = Loader()
    try:
        for case in configurations(types, parents, k, kinds, False, False):
            if any(p["conflicts"] for p in predict(case)):
                continue
            for edit in replace_menu(case):
                part.merge(isolated(_replace_case, loader, case, edit))
    finally:
        loader.close()
    return part


# the categories that NOT-INHERITED lists govern -- without the diag variables: on the tree under test the PDX writer
# cannot write any layer that has DIAG-VARIABLES (the layer templates use the macro namespace `pdv` without importing
# it: jinja2 UndefinedError), which is a defect of the writer (C11), not of value inheritance
WRITE_CATS = ["svc", "job", "dop", "struct", "table", "gnr"]
_WL = ["comms", "dops", "tables", "gnrs"]
WRITE_LISTS = [[lst] for lst in _WL] + [list(_WL)]


def write_problems(loader: Loader, case: Dict[str, Any], part: Optional[Part]) -> List[Tuple[str, str]]:
    """Load, write_pdx_file(), load_pdx_file(): the reloaded database must show the views of the same model."""
    import odxtools
    from odxtools.writepdxfile import write_pdx_file
    preds = predict(case)
    if any(p["conflicts"] for p in preds):
        return []
    try:
        db = loader.load([case])
    except Exception:  # noqa -- business of the main phase
        return []
    if judge_loaded(case, preds, db, "", None):
        return []  # (already wrong before writing: business of the main phase)
    os.makedirs(loader.dir, exist_ok=True)
    path = os.path.join(loader.dir, "roundtrip.pdx")
    tag = "C09/write-reload/" + ("all-lists" if len(case["excl_lists"]) > 1 else case["excl_lists"][0]) + "/"
    try:
        try:
            write_pdx_file(path, db)
            db2 = odxtools.load_pdx_file(path)
        finally:
            if os.path.exists(path):
                os.unlink(path)
    except Exception as e:  # noqa
        if part is not None:
            part.count("write_reload_failed")
        return [(tag + f"raises-{type(e).__name__}", f"write_pdx_file/load_pdx_file raised {type(e).__name__}: {str(e)[:300]}")]
    probs = judge_loaded(case, preds, db2, "", None)
    if part is not None:
        part.count("write_reload_evaluations")
    return [(tag + "/".join(k[len("C09/"):].split("/")[:3]), f"after write_pdx_file + load_pdx_file: {d}") for k, d in probs]


def _write_case(loader: Loader, case: Dict[str, Any]) -> Part:
    part = Part()
    for key, detail in write_problems(loader, case, part):
        part.violation(key, {"mode": "write", "case": case}, detail)
    return part


def write_unit(unit: Tuple[Any, ...]) -> Part:
    types, parents, k, kinds = unit
    part = Part()
    loader = Loader()
    try:
        for case in configurations(types, parents, k, kinds, False, False):
            if not case["excl"]:
                continue
            for lists in WRITE_LISTS:
                c = dict(case, excl_lists=lists, cats=[x for x in WRITE_CATS if x in case["cats"]])
                if c["cats"] and not any(p["conflicts"] for p in predict(c)):
                    part.merge(isolated(_write_case, loader, c))
                    part.add("write_lists", "+".join(lists))
    finally:
        loader.close()
    return part


# ---------------------------------------------------------------------------------------------
# sequences: the outcome of an evaluation must not depend on earlier evaluations in the same process
# ---------------------------------------------------------------------------------------------
def _refresh_outcome(db: Any, case: Dict[str, Any]) -> Tuple[str, Any]:
    try:
        db.refresh()
    except Exception as e:  # noqa
        return "error", type(e).__name__
    return "loaded", full_observation(db, case, "", list(range(len(case["types"]))))


def sequence_problems(loader: Loader, case: Dict[str, Any], part: Optional[Part]) -> List[Tuple[str, str]]:
    """In ONE process: load the case; if that raised, call refresh() on the same database again; then load the same
    description into a second database.  Every later outcome must equal the first one."""
    files = eh.database_files([case])
    db = loader.load_files(files, refresh=False)
    first = _refresh_outcome(db, case)
    steps = []
    if first[0] == "error":
        steps.append(("refresh-again-after-the-error", _refresh_outcome(db, case)))
    steps.append(("same-description-in-a-second-database", _refresh_outcome(loader.load_files(files, refresh=False), case)))
    out = []
    for name, oc in steps:
        if part is not None:
            part.count("sequence_evaluations")
            part.count("sequence_first_" + first[0])
        if oc != first:
            def short(o: Tuple[str, Any]) -> str:
                cat = case["cats"][0]
                return f"raised {o[1]}" if o[0] == "error" else f"loaded, {cat} view per layer " + str([x.get(cat) for x in o[1]])
            out.append((f"C09/sequence/second-evaluation-differs/{name}",
                        f"first evaluation: {short(first)}; {name}: {short(oc)}"))
    return out


def _sequence_case(loader: Loader, case: Dict[str, Any]) -> Part:
    part = Part()
    for key, detail in sequence_problems(loader, case, part):
        part.violation(key, {"mode": "sequence", "case": case}, detail)
    return part


def sequence_unit(unit: Tuple[Any, ...]) -> Part:
    types, parents, k, kinds = unit
    part = Part()
    loader = Loader()
    try:
        for case in configurations(types, parents, k, kinds, False, False):
            if any(p["conflicts"] for p in predict(case)):
                part.merge(isolated(_sequence_case, loader, case))
    finally:
        loader.close()
    return part


# ---------------------------------------------------------------------------------------------
def is_chain_or_diamond(types: Sequence[str], parents: Sequence[Sequence[int]]) -> bool:
    """5-layer shapes kept in the thorough tier: the full chain through all five types and hierarchies with a
    single childless layer in which every layer has at most two parents and some layer is reached on two paths."""
    n = len(types)
    referenced = {p for ps in parents for p in ps}
    sinks = [i for i in range(n) if i not in referenced]
    if len(sinks) != 1 or any(len(ps) > 2 for ps in parents):
        return False
    tags = ri.shape_tags(types, parents)
    return "diamond" in tags or all(len(ps) <= 1 for ps in parents)


def plan(quick: bool) -> Tuple[Any, ...]:
    units: List[Tuple[Any, ...]] = []
    punits: List[Tuple[Any, ...]] = []
    runits: List[Tuple[Any, ...]] = []
    sunits: List[Tuple[Any, ...]] = []
    qunits: List[Tuple[Any, ...]] = []
    bounds: Dict[str, Any] = {}
    # xspaces: (n, k, kinds, required kind, max exclusions, shards) -- only the placements containing the required kind
    # rspaces: (n, k, kinds, 19 categories?, compare with a fresh load?, required kind)
    if quick:
        spaces = [(1, 2, (0, 1, 2, 3), True, True, 1), (2, 2, (0, 1, 2, 3), True, True, 1), (3, 1, (0, 1, 2, 3), True, False, 2),
                  (3, 2, (0, 1), False, False, 4), (4, 1, (0, 1), False, False, 2)]
        xspaces = [(1, 2, (0, 1, 4), 4, None, 1), (2, 2, (0, 1, 4), 4, None, 1), (3, 1, (0, 1, 4), 4, None, 1)]
        pspaces = [(2, 1, (0, 1)), (3, 1, (0, 1))]
        rspaces = [(1, 2, (0, 1, 2, 3), True, True, None), (2, 2, (0, 1, 2, 3), True, True, None), (3, 1, (0, 1, 3), False, False, None),
                   (2, 2, (0, 1, 4), False, True, 4)]
        sspaces = [(2, 1, (0, 1, 4)), (3, 1, (0, 1))]
        qspaces = [(3, 1, (0, 1, 2, 3, 4)), (3, 2, (0, 1)), (4, 1, (0, 1))]
        cspaces = [(2, 1, (0, 1)), (3, 1, (0, 1))]
        wspaces = [(2, 1, (0, 1))]
    else:
        spaces = [(1, 2, (0, 1, 2, 3), True, True, 1), (2, 2, (0, 1, 2, 3), True, True, 1), (3, 1, (0, 1, 2, 3), True, True, 2),
                  (3, 2, (0, 1, 2), False, False, 16), (4, 1, (0, 1, 2, 3), False, False, 4), (5, 1, (0, 1), False, False, 4)]
        xspaces = [(1, 2, (0, 1, 4), 4, None, 1), (2, 2, (0, 1, 2, 4), 4, None, 1), (3, 1, (0, 1, 2, 4), 4, None, 1),
                   (4, 1, (0, 1, 4), 4, 1, 2)]
        pspaces = [(2, 2, (0, 1, 2)), (3, 1, (0, 1, 2, 3))]
        rspaces = [(1, 2, (0, 1, 2, 3), True, True, None), (2, 2, (0, 1, 2, 3), True, True, None), (3, 1, (0, 1, 2, 3), True, True, None),
                   (3, 2, (0, 1), False, False, None), (2, 2, (0, 1, 4), False, True, 4)]
        sspaces = [(2, 2, (0, 1, 3, 4)), (3, 1, (0, 1, 3, 4))]
        qspaces = [(3, 1, (0, 1, 2, 3, 4)), (3, 2, (0, 1)), (4, 1, (0, 1, 2))]
        cspaces = [(2, 2, (0, 1)), (3, 1, (0, 1, 3, 4))]
        wspaces = [(2, 2, (0, 1))]
    desc = []
    for n, k, kinds, skew, full, nsh in spaces:
        hs = ri.hierarchies(n)
        note = ""
        mx = None
        if n == 5:
            hs = [h for h in hs if is_chain_or_diamond(*h)]
            note = " (chains and single-sink diamonds with <= 2 parents per layer only)"
        if n == 4 and k == 2:
            # two names on four layers: only the hierarchies with one childless layer and an equal-priority pair
            hs = [h for h in hs if len({p for ps in h[1] for p in ps}) == 3 and "equal-priority-parents" in ri.shape_tags(*h)]
            note = " (single-sink hierarchies with an equal-priority parent pair only; NOT-INHERITED sets with <= 1 entry)"
            nsh = 2
            mx = 1
        desc.append(f"{n} layers x {k} name(s): {len(hs)} hierarchies{note}, placement kinds {list(kinds)}, "
                    f"{'with' if skew else 'without'} partial exclusion lists, "
                    f"{'all 19 categories' if full else 'the 11 core categories'}")
        for types, parents in hs:
            for sh in range(nsh):
                units.append((types, parents, k, kinds, skew, full, mx, sh, nsh))
    for n, k, kinds, req, mx, nsh in xspaces:
        desc.append(f"{n} layers x {k} name(s): all hierarchies, placement kinds {list(kinds)}, only placements containing kind {req}, "
                    f"NOT-INHERITED sets with <= {mx} entries, services/jobs/variables only")
        for types, parents in ri.hierarchies(n):
            for sh in range(nsh):
                units.append((types, parents, k, kinds, False, False, mx, sh, nsh, req))
    for n, k, kinds in pspaces:
        for types, parents in ri.hierarchies(n):
            punits.append((types, parents, k, kinds))
    for n, k, kinds in sspaces:
        for types, parents in ri.hierarchies(n):
            sunits.append((types, parents, k, kinds))
    for n, k, kinds in qspaces:
        for types, parents in ri.hierarchies(n):
            qunits.append((types, parents, k, kinds))
    cunits = [(t, p, k, kinds) for n, k, kinds in cspaces for t, p in ri.hierarchies(n)]
    wunits = [(t, p, k, kinds) for n, k, kinds in wspaces for t, p in ri.hierarchies(n)]
    bounds["replace_container_phase"] = [f"{n} layers x {k} name(s), kinds {list(kinds)}: one document per layer; for every referenced "
                                         f"layer and name the layer's document is removed and a revision with that placement toggled "
                                         f"is added, then refresh()" for n, k, kinds in cspaces]
    bounds["write_reload_phase"] = [f"{n} layers x {k} name(s), kinds {list(kinds)}: every case with exclusions x (each NOT-INHERITED "
                                    f"list alone, all lists): write_pdx_file + load_pdx_file" for n, k, kinds in wspaces]
    bounds["sequence_phase"] = [f"{n} layers x {k} name(s), kinds {list(kinds)}: every case with a predicted unresolved clash, evaluated "
                                f"twice in one process (refresh() again after the error; the same description in a second database)"
                                for n, k, kinds in qspaces]
    bounds["isolation"] = "every database load / edit sequence runs in a forked child of a worker that never executes library code"
    bounds["split_container_phase"] = [f"{n} layers x {k} name(s), kinds {list(kinds)}: one document per layer, PARENT-REFs with DOCREF, "
                                       f"documents added parents-first and children-first" for n, k, kinds in sspaces]
    for n, k, kinds, full, diff, req in rspaces:
        for types, parents in ri.hierarchies(n):
            runits.append((types, parents, k, kinds, full, diff, req))
    bounds["refresh_phase"] = [f"{n} layers x {k} name(s), kinds {list(kinds)}, {'19' if full else '11'} categories: every case that "
                               f"loads x (second refresh + every single edit: remove the objects of one placement / remove one "
                               f"PARENT-REF / add one NOT-INHERITED entry), {'with' if diff else 'without'} the comparison against "
                               f"a fresh load of the edited description" + (f", only placements containing kind {req}" if req else "")
                               for n, k, kinds, full, diff, req in rspaces]
    bounds["spaces"] = desc
    bounds["parent_view_phase"] = [f"{n} layers x {k} name(s), kinds {list(kinds)}" for n, k, kinds in pspaces]
    bounds["allowed_parent_types"] = {k: list(v) for k, v in ri.ALLOWED_PARENTS.items()}
    bounds["categories_core"] = eh.ALL_CATS
    bounds["categories_all"] = eh.FULL_CATS
    bounds["batch"] = BATCH
    return units, punits, runits, sunits, qunits, cunits, wunits, bounds


def run(ctx: Ctx) -> None:
    Loader.sweep()
    units, punits, runits, sunits, qunits, cunits, wunits, bounds = plan(ctx.quick)
    ctx.bounds = bounds
    ctx.rule = ("every hierarchy (up to renaming of layers) within the layer bound x every placement of the names x every "
                "NOT-INHERITED set; non-trivial = distinct (hierarchy, per-layer source of every visible object, exclusions, "
                "clash yes/no, outcome) where at least one object is inherited, excluded, overridden or clashes")
    ctx.assumptions = [
        "PARENT-REF targets as in ODX 2.2: PROTOCOL->ESD; FUNCTIONAL-GROUP->ESD,PROTOCOL; BASE-VARIANT->ESD,PROTOCOL,FUNCTIONAL-GROUP; "
        "ECU-VARIANT->ESD and at most one BASE-VARIANT",
        "priority PROTOCOL < FUNCTIONAL-GROUP < BASE-VARIANT < ECU-VARIANT is demanded; the rank of ECU-SHARED-DATA relative to them "
        "is three-valued: a database must be consistent with 'highest' (documented by odxtools) or with 'lowest' as a whole",
        "diag variables of shared data handed through a PROTOCOL layer (which cannot hold variables) are three-valued",
        "objects defined separately are unequal (different ID and LONG-NAME); equal objects arise from DIAG-COMM-REF / "
        "DIAG-VARIABLE-REF to one library object, from diamonds, and (value-equal but distinct) from UNIT-GROUPs with identical "
        "content in several layers -- the only inheritable kind without an ODXLINK id",
        "NOT-INHERITED entries only name objects the parent offers",
    ]
    pmap(ctx, explore_unit, units)
    pmap(ctx, parent_unit, punits)
    pmap(ctx, refresh_unit, runits)
    pmap(ctx, split_unit, sunits)
    pmap(ctx, sequence_unit, qunits)
    pmap(ctx, replace_unit, cunits)
    pmap(ctx, write_unit, wunits)
    c = ctx.counts
    c["evaluations"] = c.get("evaluations", 0) + c.get("parent_view_cases", 0) + c.get("refresh_evaluations", 0) + \
        c.get("split_container_evaluations", 0) + c.get("sequence_evaluations", 0) + \
        c.get("replace_container_evaluations", 0) + c.get("write_reload_evaluations", 0)
    only_h = ctx.sets.pop("esd_only_highest", set())
    only_l = ctx.sets.pop("esd_only_lowest", set())
    if only_h and only_l:
        import json
        a, b = min(only_h, key=lambda x: (len(x), x)), min(only_l, key=lambda x: (len(x), x))
        ctx.violation("C09/priority/shared-data-rank-inconsistent", {"mode": "pair", "cases": [json.loads(a), json.loads(b)]},
                      "one database only fits ECU-SHARED-DATA as the highest-priority parent, another one only as the lowest")
    ctx.extra["shared_data_rank_implemented"] = "highest" if only_h and not only_l else "lowest" if only_l and not only_h else \
        "inconsistent" if only_h else "not distinguishable"
    shapes = ctx.sets.get("shapes", set())
    for t in ("single-parent", "multiple-parents", "equal-priority-parents", "mixed-priority-parents", "diamond", "chain>=3"):
        ctx.guard(f"hierarchy shape '{t}' explored", t in shapes)
    ctx.guard("all 19 categories instantiated", ctx.sets.get("categories", set()) == set(eh.FULL_CATS))
    ctx.guard("loads that succeed and loads that report a clash both seen", c.get("hierarchies_loaded", 0) > 0 and c.get("hierarchies_error", 0) > 0)
    ctx.guard("cases with NOT-INHERITED entries seen", c.get("cases_with_exclusions", 0) > 0)
    ctx.guard("value-equal but distinct objects inherited from two equal-priority parents without a clash seen",
              c.get("value_equal_objects_from_equal_priority_parents_loaded", 0) > 0)
    ctx.guard("cases with partial exclusion lists seen", c.get("cases_with_partial_exclusion_lists", 0) > 0)
    ctx.guard("decode() found visible and rejected invisible services", c.get("decode_found", 0) > 0 and c.get("decode_rejected", 0) > 0)
    ctx.guard("parent views compared with the database without the child", c.get("parent_view_comparisons", 0) > 0)
    ctx.guard("refresh phase: every edit kind applied, refreshes that succeed and that report a clash both seen",
              ctx.sets.get("refresh_edit_kinds", set()) == {"none", "remove-objects", "remove-parent-ref", "add-not-inherited"}
              and c.get("refresh_loaded", 0) > 0 and c.get("refresh_error", 0) > 0 and c.get("refresh_differential_comparisons", 0) > 0)
    ctx.guard("split-container phase: both document orders loaded, successful loads and reported clashes both seen",
              ctx.sets.get("split_orders", set()) == set(ORDERS) and c.get("split_container_loaded", 0) > 0
              and c.get("split_container_error", 0) > 0)
    ctx.guard("a job overriding an inherited service of the same short name (and vice versa) seen",
              c.get("cross_kind_overrides", 0) > 0)
    ctx.guard("replace-container phase ran; write-reload phase covered every NOT-INHERITED list alone",
              c.get("replace_container_loaded", 0) > 0 and c.get("write_reload_evaluations", 0) > 0
              and ctx.sets.get("write_lists", set()) == {"+".join(x) for x in WRITE_LISTS})
    ctx.guard("sequence phase: clash configurations evaluated twice in one process",
              c.get("sequence_evaluations", 0) + \
        c.get("replace_container_evaluations", 0) + c.get("write_reload_evaluations", 0) > 0 and c.get("sequence_first_error", 0) > 0)
    ctx.guard("three-valued cases are a minority", c.get("three_valued_cases", 0) * 2 < max(1, c.get("hierarchies_loaded", 0)))


def replay(case: Any) -> List[Tuple[str, str]]:
    """Re-executes one recorded case in a forked child, so that the verdict is a function of the case alone."""
    return isolated(_replay, case)


def _replay(case: Any) -> List[Tuple[str, str]]:
    loader = Loader()
    try:
        if case.get("mode") == "sequence":
            return sequence_problems(loader, case["case"], None)
        if case.get("mode") == "replace":
            return replace_problems(loader, case["case"], case["edit"], None)
        if case.get("mode") == "write":
            return write_problems(loader, case["case"], None)
        if "batch" in case:
            cases = case["batch"]
            slot = case["slot"]
            db = loader.load(cases)
            prefix = f"k{slot}_" if len(cases) > 1 else ""
            probs = judge_loaded(cases[slot], predict(cases[slot]), db, prefix, None)
            alone, _ = run_single(loader, cases[slot], None)
            keys1 = {k for k, _ in alone}
            return [("C09/batch/finding-only-in-shared-database", f"{k}: {d}") for k, d in probs if k not in keys1]
        if case.get("mode") == "split":
            return [(k, d) for _, k, d in split_problems(loader, case["case"], [case["order"]], None)]
        if case.get("mode") == "refresh":
            found = refresh_problems(loader, case["case"], case["edits"], None)
            if "at" in case:
                return [(k + "/only-after-earlier-edits", d) for ei, k, d in found if ei == case["at"] and k == case["key"]]
            return [(k, d) for _, k, d in found]
        if case.get("mode") == "pair":
            ranks = []
            for c in case["cases"]:
                info: Dict[str, Any] = {}
                run_single(loader, c, None, info)
                ranks.append(info.get("esd_only"))
            if set(ranks) == {"highest", "lowest"}:
                return [("C09/priority/shared-data-rank-inconsistent", f"exclusive readings of the two databases: {ranks}")]
            return []
        if case.get("mode") == "parent-view":
            c = {k: v for k, v in case.items() if k != "mode"}
            return parent_view_problems(loader, c, None)
        probs, _ = run_single(loader, case, None)
        return probs
    finally:
        loader.close()
