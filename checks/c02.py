"""C02 -- encoded PDUs are bit-exact with the ODX wire format, on both bit-packing backends.

Every program of the shared codec space (DESIGN.md section 4) is emitted as ODX XML, loaded by the real
loader and interpreted independently by odxmodel.refodx; for every value assignment the reference accepts:
identical bytes, identical decode of the reference-built PDU, undescribed bits zero, overlap warning iff the
reference sees a bit claimed twice.  The whole exploration is run a second time in a process in which the
accelerated backend `bitstruct.c` is not importable.
"""
from __future__ import annotations

import json
import os
import subprocess
import sys
from typing import Any, Dict, List, Tuple

from mcx.core import Ctx, HarnessError, Part, VERIF, digest, pmap
from odxmodel import harness, refodx, space
from odxmodel.harness import jval, show, unjval
from checks.codec_common import make_contextualize, library_for, minimize_keys, tagkey

PROPERTY = "C02"
LEVEL = "model_checking"


def backend() -> str:
    return "pure" if os.environ.get("VERIF_PURE_BITSTRUCT") else "c"


def check_program(L: harness.Loaded, prog: Dict[str, Any], part: Part, bk: str) -> None:
    msg = L.msg[prog["pid"]]
    tag = tagkey(prog)
    for values in prog["assign"]:
        part.count("evaluations")
        case = {"program": prog_case(prog), "values": jval(values), "backend": bk}
        try:
            ref_pdu, ref_out, e = L.interp.encode(prog["pid"], values, prog.get("request"))
        except refodx.Reject:
            part.count("ref_rejects")
            continue
        except refodx.DontCare:
            part.count("dont_care")
            continue
        pdu, exc, ov = harness.odx_encode(msg, values, prog.get("request"))
        if exc is not None:
            # over-rejection of a representable value is recorded, not judged (no listed property forbids it);
            # the decode direction below is still checked on the reference-built PDU
            part.count("odxtools_refuses_valid")
            part.add("refusal_classes", f"{tag}:{type(exc).__name__}")
        else:
            part.count("compared")
            part.add("nontrivial", digest((prog["tags"], ref_pdu.hex())))
            if pdu != ref_pdu:
                part.violation(f"C02/{tag}/bytes-differ/{bk}", case,
                               f"odxtools {pdu.hex()} reference {ref_pdu.hex()} for {show(values)}")
                continue
            if bool(ov) != bool(e.overlap):
                part.violation(f"C02/{tag}/overlap-warning-{'missing' if e.overlap else 'spurious'}/{bk}", case,
                               f"reference overlap={e.overlap}, warnings={ov[:1]}")
        if e.overlap:
            continue  # overwritten bits: the decode expectation is meaningless
        dec, dexc = harness.odx_decode(msg, ref_pdu)
        if dexc is not None:
            part.violation(f"C02/{tag}/decode-raises/{bk}", case, f"{type(dexc).__name__}: {dexc} on {ref_pdu.hex()}")
        elif not harness.same_value(ref_out, dec):
            part.violation(f"C02/{tag}/decode-differs/{bk}", case,
                           f"pdu {ref_pdu.hex()} decodes to {show(dec)}, reference {show(ref_out)}")


def prog_case(prog: Dict[str, Any]) -> Dict[str, Any]:
    return {"pid": prog["pid"], "dops": prog["dops"], "params": prog["params"], "kind": prog.get("kind", "REQUEST"),
            "request": jval(prog.get("request")), "tags": prog["tags"], "library": prog.get("library", False)}


def unit_fn(unit: Tuple[str, List[Dict[str, Any]]]) -> Part:
    name, progs = unit[0], unit[1]
    again = name.endswith("@refreshed") or any(p.get("refreshed") for p in progs)
    part = Part()
    bk = backend()
    try:
        L = harness.Loaded(progs, library_for(progs))
        if again:  # the database is refreshed a second time before it is used: nothing may change
            L.db.refresh()
    except Exception as ex:  # a program the loader refuses: localise it
        for p in progs:
            try:
                harness.Loaded([p], library_for([p]))
            except Exception as ex2:
                part.violation(f"C02/{tagkey(p)}/load-fails", {"program": prog_case(p), "values": None, "backend": bk},
                               f"{type(ex2).__name__}: {ex2}")
        return part
    part.count("programs", len(progs))
    part.count("states", len(progs))
    for p in progs:
        check_program(L, p, part, bk)
        for t in p["tags"]:
            part.add("tags", t)
    part.count("transitions", part.counts.get("evaluations", 0))
    if again:
        part.count("units_after_a_second_refresh")
        for k in list(part.viol):  # cases found here need the second refresh to replay
            v = part.viol[k]
            if isinstance(v[1], dict) and isinstance(v[1].get("program"), dict):
                v[1]["program"]["refreshed"] = True
            part.viol[k + "/after-second-refresh"] = part.viol.pop(k)
    return part


def units_for(ctx: Ctx) -> List[Tuple[str, List[Dict[str, Any]]]]:
    u = space.layer_a_units(ctx.quick) + space.layer_b_units(ctx.quick) + space.layer_c_units(ctx.quick) + space.layer_c_units(ctx.quick, overlap=True)
    # the same descriptions after Database.refresh() has been called a second time (quick: every fifth composition unit)
    c = space.layer_c_units(ctx.quick)
    u += [(n + "@refreshed", p) for n, p in (c[::5] if ctx.quick else c)]
    return u


contextualize = make_contextualize(PROPERTY, lambda quick: units_for(__import__("types").SimpleNamespace(quick=quick)))


def run(ctx: Ctx) -> None:
    bk = backend()
    units = units_for(ctx)
    ctx.bounds = {"layer_A": "atomic types x bit length x byte order x bit position x byte position",
                  "all_values_upto_bits": 8 if ctx.quick else 12, "units": len(units), "backend": bk}
    ctx.rule = ("every program of the codec space x every value assignment of its alphabet that the reference accepts; "
                "non-trivial = distinct (program tags, reference PDU)")
    ctx.assumptions = ["reference interpreter odxmodel/refodx.py encodes ISO 22901-1 7.3.6 as listed in DESIGN.md appendix C",
                       "values the reference rejects are C04's business; constructs outside the envelope are skipped and counted (dont_care)"]
    pmap(ctx, unit_fn, units, isolate=True)
    minimize_keys(ctx)
    ctx.counts["traces_validated_against_impl"] = ctx.counts.get("compared", 0)
    ctx.sample({"program": "i_Ux_l_12_3_a", "values": {"v": 2748}, "pdu": "e055"})
    ctx.guard("compared > 1000", ctx.counts.get("compared", 0) > 1000)
    ctx.guard("odxtools accepts > 90% of the reference-valid assignments",
              ctx.counts.get("compared", 0) > 9 * ctx.counts.get("odxtools_refuses_valid", 0))
    if bk == "c" and not os.environ.get("VERIF_NO_SECOND_BACKEND"):
        other = run_other_backend(ctx)
        for k, v in other["viol"].items():
            ctx.viol[k] = (v[0], v[1], v[2])
        ctx.nviol += other["nviol"]
        ctx.extra["pure_backend"] = {"compared": other["counts"].get("compared", 0), "evaluations": other["counts"].get("evaluations", 0),
                                     "violating_keys": sorted(other["viol"])}
        ctx.guard("pure backend compared the same number of cases", other["counts"].get("compared", -1) == ctx.counts.get("compared", 0) or bool(other["viol"]) or bool(ctx.viol))
        ctx.counts["evaluations"] += other["counts"].get("evaluations", 0)


def run_other_backend(ctx: Ctx) -> Dict[str, Any]:
    env = dict(os.environ, VERIF_PURE_BITSTRUCT="1", VERIF_SEED=str(ctx.seed))
    code = ("import sys, json; sys.path.insert(0, %r); from mcx.core import sub_main; sub_main(%r, %r)" % (VERIF, PROPERTY, ctx.tier))
    r = subprocess.run([sys.executable, "-W", "ignore", "-c", code], env=env, capture_output=True, text=True, cwd=VERIF)
    if r.returncode != 0:
        raise HarnessError("pure-backend subprocess failed: " + r.stderr[-1500:])
    line = [l for l in r.stdout.splitlines() if l.startswith("SUBRESULT ")][-1]
    return json.loads(line[len("SUBRESULT "):])


def replay(case: Any) -> List[Tuple[str, str]]:
    bk = case.get("backend", "c")
    if bk != backend():
        env = dict(os.environ)
        if bk == "pure":
            env["VERIF_PURE_BITSTRUCT"] = "1"
        else:
            env.pop("VERIF_PURE_BITSTRUCT", None)
        code = ("import sys, json; sys.path.insert(0, %r); from mcx.core import sub_replay; sub_replay(%r, sys.stdin.read())" % (VERIF, PROPERTY))
        r = subprocess.run([sys.executable, "-W", "ignore", "-c", code], env=env, input=json.dumps(case), capture_output=True, text=True, cwd=VERIF)
        line = [l for l in r.stdout.splitlines() if l.startswith("SUBRESULT ")]
        if not line:
            raise HarnessError("replay subprocess failed: " + r.stderr[-800:])
        return [tuple(x) for x in json.loads(line[-1][len("SUBRESULT "):])]
    if case.get("unit_replay"):
        # the case needs the other descriptions of its unit (state shared between objects): run the whole unit
        ur = case["unit_replay"]
        units = units_for(__import__("types").SimpleNamespace(quick=ur["tier"] == "quick"))
        pid = case["program"]["pid"]
        unit = next((u for u in ([units[ur["index"]]] if ur["index"] < len(units) else []) + units if any(q["pid"] == pid for q in u[1])), None)
        if unit is None:
            return []
        part = unit_fn(unit)
        return [(k, v[2]) for k, v in part.viol.items()]
    p = case["program"]
    prog = {"pid": p["pid"], "dops": p["dops"], "params": p["params"], "kind": p.get("kind", "REQUEST"),
            "request": unjval(p.get("request")), "tags": p["tags"], "library": p.get("library", False), "assign": [unjval(case["values"])] if case["values"] is not None else [],
            "refreshed": p.get("refreshed", False)}
    part = unit_fn(("replay", [prog]))
    return [(k, v[2]) for k, v in part.viol.items()]
