"""C10 -- every reference resolves to the object it names, or loading fails.

Bounded exhaustive exploration of a scenario space; one small database per scenario, emitted as ODX XML by
odxmodel.emit_links and loaded through the public loader; the expectation comes from odxmodel.reflinks (no
odxtools).  Three families of scenarios:

 (I)  ODXLINK: reference kind x addressing form x definition set x import set x document orders.
      Template: container CA = {LR (referrer), LS (sibling)}, CB = {LO, LQ (child of LO)}, CS = {LE (ECU-SHARED-DATA)};
      the local ID "X" is defined in every subset of {LR, LS, LO, LE}; every subset of {LR, LS, LO} imports LE.
 (D)  references whose target lives in a comparam document or is a layer (COMPARAM-REF, COMPARAM-SPEC-REF,
      COMPARAM-SUBSET-REF, DATA-OBJECT-PROP-REF of a COMPARAM, PARENT-REF, IMPORT-REF).
 (S)  SNREF: reference kind x owner (child/parent layer) x definition set x NOT-INHERITED x special situations
      (ambiguous, wrong type), each followed by retarget_snrefs() to every layer of the hierarchy.

Oracle: the resolved attribute carries the LONG-NAME marker predicted by reflinks; where reflinks says FAIL,
loading in strict mode raises; DON'T-CARE outcomes are counted, never judged.
"""
from __future__ import annotations

import copy
import io
import itertools
import os
import shutil
import tempfile
from typing import Any, Callable, Dict, List, Optional, Tuple

from mcx.core import Ctx, Part, digest, pmap
from odxmodel import emit_links, reflinks

PROPERTY = "C10"
LEVEL = "exploration"

X_ID = "X"  # the colliding local ID


# ---------------------------------------------------------------------------------------------
# loading worlds through the real loader
# ---------------------------------------------------------------------------------------------
_SCRATCH: Optional[str] = None


def scratch() -> str:
    """scratch directory of this process (RAM-backed if possible).  Pool workers are ended without running atexit
    handlers, therefore every work unit removes its directory itself (cleanup_scratch)."""
    global _SCRATCH
    if _SCRATCH is None or not os.path.isdir(_SCRATCH) or not _SCRATCH.endswith("_" + str(os.getpid())):
        base = "/dev/shm" if os.path.isdir("/dev/shm") and os.access("/dev/shm", os.W_OK) else None
        _SCRATCH = tempfile.mkdtemp(prefix="odxverif_c10_", suffix="_" + str(os.getpid()), dir=base)
    return _SCRATCH


def cleanup_scratch() -> None:
    global _SCRATCH
    if _SCRATCH is not None and _SCRATCH.endswith("_" + str(os.getpid())):
        shutil.rmtree(_SCRATCH, ignore_errors=True)
        _SCRATCH = None


def load_world(world: Dict[str, Any]) -> Any:
    from odxtools.database import Database
    d = Database()
    d.add_auxiliary_file("job.jar", io.BytesIO(b"\x00"))  # the PROG-CODE of the SINGLE-ECU-JOBs
    sd = scratch()
    paths = emit_links.write_world(world, sd)
    try:
        for p in paths:
            d.add_odx_file(p)
    finally:
        for p in paths:
            try:
                os.unlink(p)
            except OSError:
                pass
    d.refresh()
    return d


def try_load(world: Dict[str, Any]) -> Tuple[Any, Optional[BaseException]]:
    import odxtools.exceptions as oe
    old = oe.strict_mode
    oe.strict_mode = True
    try:
        return load_world(world), None
    except Exception as e:  # noqa: BLE001 - the property: "raises an error in strict mode"
        return None, e
    finally:
        oe.strict_mode = old


def marker_of(o: Any) -> Any:
    if o is None:
        return None
    return getattr(o, "long_name", "<no long_name: %s>" % type(o).__name__)


# ---------------------------------------------------------------------------------------------
# world building blocks
# ---------------------------------------------------------------------------------------------
def new_layer(sn: str, typ: str) -> Dict[str, Any]:
    return {"sn": sn, "type": typ, "id": "LID." + sn, "m": "layer:" + sn}


def add(layer: Dict[str, Any], extra: Dict[str, List[Any]]) -> None:
    for k, v in extra.items():
        if isinstance(v, list):
            layer.setdefault(k, []).extend(v)
        else:
            layer[k] = v


def aux_dop(L: str, sn: str) -> Dict[str, Any]:
    return {"k": "dop", "sn": sn, "id": f"{L}.{sn}", "m": f"{L}/{sn}"}


def lref(L: str, sn: str) -> Dict[str, Any]:
    """plain fragment-relative reference to an auxiliary object of layer L"""
    return {"ref": f"{L}.{sn}"}


CC = {"t": "CODED-CONST", "sn": "sid", "value": 0x22}


# -- targets: objects of a given type with ID X / marker m placed into layer L --------------------------------
def T_dop(L: str, i: str, m: str, sn: str) -> Dict[str, Any]:
    return {"ddds": [{"k": "dop", "sn": sn, "id": i, "m": m}]}


def T_struct(L: str, i: str, m: str, sn: str) -> Dict[str, Any]:
    return {"ddds": [{"k": "struct", "sn": sn, "id": i, "m": m, "params": []}]}


def T_table(L: str, i: str, m: str, sn: str) -> Dict[str, Any]:
    return {"ddds": [aux_dop(L, "t_kd"),
                     {"k": "table", "sn": sn, "id": i, "m": m, "key_dop": lref(L, "t_kd"),
                      "rows": [{"sn": "t_r1", "id": f"{L}.t_r1", "m": f"{L}/t_r1", "key": 1, "dop": lref(L, "t_kd")}]}]}


def T_row(L: str, i: str, m: str, sn: str) -> Dict[str, Any]:
    return {"ddds": [aux_dop(L, "t_kd"),
                     {"k": "table", "sn": "t_tab", "id": f"{L}.t_tab", "m": f"{L}/t_tab", "key_dop": lref(L, "t_kd"),
                      "rows": [{"sn": sn, "id": i, "m": m, "key": 1, "dop": lref(L, "t_kd")}]}]}


def T_tablekey(L: str, i: str, m: str, sn: str) -> Dict[str, Any]:
    t = T_row(L, f"{L}.t_row", f"{L}/t_row", "t_row")
    t["requests"] = [{"sn": "t_RQ", "id": f"{L}.t_RQ", "m": f"{L}/t_RQ",
                      "params": [CC, {"t": "TABLE-KEY", "sn": sn, "id": i, "m": m, "table": lref(L, "t_tab")}]}]
    return t


def T_lengthkey(L: str, i: str, m: str, sn: str) -> Dict[str, Any]:
    return {"ddds": [aux_dop(L, "t_ld")],
            "requests": [{"sn": "t_RQ", "id": f"{L}.t_RQ", "m": f"{L}/t_RQ",
                          "params": [CC, {"t": "LENGTH-KEY", "sn": sn, "id": i, "m": m, "dop": lref(L, "t_ld")}]}]}


def T_envdata(L: str, i: str, m: str, sn: str) -> Dict[str, Any]:
    return {"ddds": [{"k": "envdata", "sn": sn, "id": i, "m": m, "params": []}]}


def T_envdesc(L: str, i: str, m: str, sn: str) -> Dict[str, Any]:
    return {"ddds": [{"k": "envdata", "sn": "t_ed", "id": f"{L}.t_ed", "m": f"{L}/t_ed", "params": []},
                     {"k": "envdesc", "sn": sn, "id": i, "m": m, "envdatas": [lref(L, "t_ed")]}]}


def T_msg(key: str) -> Callable[[str, str, str, str], Dict[str, Any]]:
    def f(L: str, i: str, m: str, sn: str) -> Dict[str, Any]:
        return {key: [{"sn": sn, "id": i, "m": m, "params": [CC]}]}
    return f


def T_service(L: str, i: str, m: str, sn: str) -> Dict[str, Any]:
    return {"requests": [{"sn": "t_SRQ", "id": f"{L}.t_SRQ", "m": f"{L}/t_SRQ", "params": [CC]}],
            "comms": [{"k": "service", "sn": sn, "id": i, "m": m, "request": lref(L, "t_SRQ")}]}


def T_fclass(L: str, i: str, m: str, sn: str) -> Dict[str, Any]:
    return {"fclasses": [{"sn": sn, "id": i, "m": m}]}


def T_audience(L: str, i: str, m: str, sn: str) -> Dict[str, Any]:
    return {"audiences": [{"sn": sn, "id": i, "m": m}]}


def T_unit(L: str, i: str, m: str, sn: str) -> Dict[str, Any]:
    return {"units": [{"sn": sn, "id": i, "m": m}]}


def T_physdim(L: str, i: str, m: str, sn: str) -> Dict[str, Any]:
    return {"physdims": [{"sn": sn, "id": i, "m": m}]}


def T_dtcdop(L: str, i: str, m: str, sn: str) -> Dict[str, Any]:
    return {"ddds": [{"k": "dtcdop", "sn": sn, "id": i, "m": m, "dtcs": []}]}


def T_dtc(L: str, i: str, m: str, sn: str) -> Dict[str, Any]:
    return {"ddds": [{"k": "dtcdop", "sn": "t_dd", "id": f"{L}.t_dd", "m": f"{L}/t_dd", "dtcs": [{"sn": sn, "id": i, "m": m, "code": 1}]}]}


# -- sources: the referring construct placed into layer L, and how to observe what it was bound to ------------
def raw_ddds(layer: Any) -> Any:
    return layer.diag_layer_raw.diag_data_dictionary_spec


def S_rq(L: str, plist: List[Dict[str, Any]], extra: Optional[Dict[str, Any]] = None) -> Dict[str, Any]:
    out = {"requests": [{"sn": "s_RQ", "id": f"{L}.s_RQ", "m": f"{L}/s_RQ", "params": [CC] + plist}]}
    if extra:
        for k, v in extra.items():
            out.setdefault(k, []).extend(v)
    return out


def rq_param(layer: Any, name: str = "p") -> Any:
    return layer.diag_layer_raw.requests["s_RQ"].parameters[name]


def s_aux_table(L: str, **kw: Any) -> Dict[str, Any]:
    row = {"sn": "s_r1", "id": f"{L}.s_r1", "m": f"{L}/s_r1", "key": 1}
    row.update(kw.pop("row", {"dop": lref(L, "s_ad")}))
    t = {"k": "table", "sn": "s_tab", "id": f"{L}.s_tab", "m": f"{L}/s_tab", "key_dop": lref(L, "s_ad"), "rows": [row]}
    t.update(kw)
    return t


def svc(L: str, **kw: Any) -> Dict[str, Any]:
    s = {"k": "service", "sn": "s_SV", "id": f"{L}.s_SV", "m": f"{L}/s_SV", "request": lref(L, "s_SRQ")}
    s.update(kw)
    out = {"comms": [s]}
    if s["request"] == lref(L, "s_SRQ"):
        out["requests"] = [{"sn": "s_SRQ", "id": f"{L}.s_SRQ", "m": f"{L}/s_SRQ", "params": [CC]}]
    return out


def the_svc(layer: Any) -> Any:
    return layer.diag_layer_raw.diag_comms["s_SV"]


def commref_target(layer: Any) -> Any:
    """the diag comm the (only) DIAG-COMM-REF of the layer was resolved to"""
    raw = layer.diag_layer_raw
    idx = [i for i, x in enumerate(raw.diag_comms_raw) if type(x).__name__ == "OdxLinkRef"]
    return raw.diag_comms[idx[0]]


class Kind:

    def __init__(self, name: str, target: Callable[..., Dict[str, Any]], source: Callable[[str, Dict[str, Any]], Dict[str, Any]],
                 observe: Callable[[Any], Any], core: bool = False):
        self.name = name
        self.target = target
        self.source = source
        self.observe = observe
        self.core = core


def field_kind(k: str, extra: Optional[Callable[[str], Dict[str, Any]]] = None) -> Callable[[str, Dict[str, Any]], Dict[str, Any]]:
    def src(L: str, r: Dict[str, Any]) -> Dict[str, Any]:
        f = {"k": k, "sn": "s_F", "id": f"{L}.s_F", "m": f"{L}/s_F", "of": r}
        if k == "dlfield":
            f["count_dop"] = lref(L, "s_ad")
        if k == "emfield":
            f["end_dop"] = lref(L, "s_ad")
        return {"ddds": [aux_dop(L, "s_ad"), f]}
    return src


def field_obj(layer: Any) -> Any:
    d = raw_ddds(layer)
    for coll in (d.static_fields, d.dynamic_length_fields, d.dynamic_endmarker_fields, d.end_of_pdu_fields):
        for f in coll:
            if f.short_name == "s_F":
                return f
    raise KeyError("s_F")


def _mux(L: str, **kw: Any) -> Dict[str, Any]:
    m = {"k": "mux", "sn": "s_MX", "id": f"{L}.s_MX", "m": f"{L}/s_MX", "key_dop": lref(L, "s_ad"),
         "cases": [{"sn": "c1", "m": f"{L}/s_MX/c1", "struct": lref(L, "s_as"), "lo": 1, "hi": 1}],
         "default": {"sn": "dflt", "m": f"{L}/s_MX/dflt", "struct": lref(L, "s_as")}}
    m.update(kw)
    return {"ddds": [aux_dop(L, "s_ad"), {"k": "struct", "sn": "s_as", "id": f"{L}.s_as", "m": f"{L}/s_as", "params": []}, m]}


def _job(L: str, **kw: Any) -> Dict[str, Any]:
    j = {"k": "job", "sn": "s_JB", "id": f"{L}.s_JB", "m": f"{L}/s_JB"}
    j.update(kw)
    return {"ddds": [aux_dop(L, "s_ad")], "comms": [j]}


KINDS: List[Kind] = [
    Kind("param/DOP-REF", T_dop, lambda L, r: S_rq(L, [{"t": "VALUE", "sn": "p", "m": f"{L}/p", "dop": r}]),
         lambda l: rq_param(l).dop, core=True),
    Kind("struct-param/DOP-REF", T_dop,
         lambda L, r: {"ddds": [{"k": "struct", "sn": "s_ST", "id": f"{L}.s_ST", "m": f"{L}/s_ST",
                                 "params": [{"t": "VALUE", "sn": "p", "m": f"{L}/p", "dop": r}]}]},
         lambda l: raw_ddds(l).structures["s_ST"].parameters["p"].dop),
    Kind("length-key/DOP-REF", T_dop, lambda L, r: S_rq(L, [{"t": "LENGTH-KEY", "sn": "p", "id": f"{L}.s_lk", "m": f"{L}/p", "dop": r}]),
         lambda l: rq_param(l).dop),
    Kind("table-key/TABLE-REF", T_table, lambda L, r: S_rq(L, [{"t": "TABLE-KEY", "sn": "p", "id": f"{L}.s_tk", "m": f"{L}/p", "table": r}]),
         lambda l: rq_param(l).table, core=True),
    Kind("table-key/TABLE-ROW-REF", T_row, lambda L, r: S_rq(L, [{"t": "TABLE-KEY", "sn": "p", "id": f"{L}.s_tk", "m": f"{L}/p", "row": r}]),
         lambda l: rq_param(l).table_row, core=True),
    Kind("table-entry/TABLE-ROW-REF", T_row, lambda L, r: S_rq(L, [{"t": "TABLE-ENTRY", "sn": "p", "m": f"{L}/p", "row": r}]),
         lambda l: rq_param(l).table_row),
    Kind("table-struct/TABLE-KEY-REF", T_tablekey, lambda L, r: S_rq(L, [{"t": "TABLE-STRUCT", "sn": "p", "m": f"{L}/p", "key": r}]),
         lambda l: rq_param(l).table_key, core=True),
    Kind("dop/LENGTH-KEY-REF", T_lengthkey, lambda L, r: {"ddds": [{"k": "dop", "sn": "s_PL", "id": f"{L}.s_PL", "m": f"{L}/s_PL", "plen": r}]},
         lambda l: raw_ddds(l).data_object_props["s_PL"].diag_coded_type.length_key),
    Kind("dop-unit/UNIT-REF", T_unit, lambda L, r: {"ddds": [{"k": "dop", "sn": "s_DU", "id": f"{L}.s_DU", "m": f"{L}/s_DU", "unit": r}]},
         lambda l: raw_ddds(l).data_object_props["s_DU"].unit, core=True),
    Kind("unit/PHYSICAL-DIMENSION-REF", T_physdim, lambda L, r: {"units": [{"sn": "s_U", "id": f"{L}.s_U", "m": f"{L}/s_U", "physdim": r}]},
         lambda l: raw_ddds(l).unit_spec.units["s_U"].physical_dimension),
    Kind("unit-group/UNIT-REF", T_unit, lambda L, r: {"unitgroups": [{"sn": "s_UG", "m": f"{L}/s_UG", "units": [r]}]},
         lambda l: raw_ddds(l).unit_spec.unit_groups["s_UG"].units[0]),
    Kind("mux-case/STRUCTURE-REF", T_struct,
         lambda L, r: _mux(L, cases=[{"sn": "c1", "m": f"{L}/s_MX/c1", "struct": r, "lo": 1, "hi": 1}]),
         lambda l: raw_ddds(l).muxs["s_MX"].cases[0].structure, core=True),
    Kind("mux-default-case/STRUCTURE-REF", T_struct, lambda L, r: _mux(L, default={"sn": "dflt", "m": f"{L}/s_MX/dflt", "struct": r}),
         lambda l: raw_ddds(l).muxs["s_MX"].default_case.structure),
    Kind("mux-switch-key/DATA-OBJECT-PROP-REF", T_dop, lambda L, r: _mux(L, key_dop=r), lambda l: raw_ddds(l).muxs["s_MX"].switch_key.dop),
    Kind("table/KEY-DOP-REF", T_dop, lambda L, r: {"ddds": [aux_dop(L, "s_ad"), s_aux_table(L, key_dop=r)]},
         lambda l: raw_ddds(l).tables["s_tab"].key_dop),
    Kind("table-row/STRUCTURE-REF", T_struct, lambda L, r: {"ddds": [aux_dop(L, "s_ad"), s_aux_table(L, row={"struct": r})]},
         lambda l: raw_ddds(l).tables["s_tab"].table_rows[0].structure, core=True),
    Kind("table-row/DATA-OBJECT-PROP-REF", T_dop, lambda L, r: {"ddds": [aux_dop(L, "s_ad"), s_aux_table(L, row={"dop": r})]},
         lambda l: raw_ddds(l).tables["s_tab"].table_rows[0].dop),
    Kind("table-row/FUNCT-CLASS-REF", T_fclass,
         lambda L, r: {"ddds": [aux_dop(L, "s_ad"), s_aux_table(L, row={"dop": lref(L, "s_ad"), "fclasses": [r]})]},
         lambda l: raw_ddds(l).tables["s_tab"].table_rows[0].functional_classes[0]),
    Kind("table/TABLE-ROW-REF", T_row,
         lambda L, r: {"ddds": [aux_dop(L, "s_ad"), {"k": "table", "sn": "s_tab", "id": f"{L}.s_tab", "m": f"{L}/s_tab",
                                                     "key_dop": lref(L, "s_ad"), "rows": [{"rowref": r}]}]},
         lambda l: raw_ddds(l).tables["s_tab"].table_rows[0]),
    Kind("table-diag-comm-connector/DIAG-COMM-REF", T_service,
         lambda L, r: {"ddds": [aux_dop(L, "s_ad"), s_aux_table(L, connectors=[{"comm": r}])]},
         lambda l: raw_ddds(l).tables["s_tab"].table_diag_comm_connectors[0].diag_comm),
    Kind("static-field/BASIC-STRUCTURE-REF", T_struct, field_kind("sfield"), lambda l: field_obj(l).structure, core=True),
    Kind("dynamic-length-field/BASIC-STRUCTURE-REF", T_struct, field_kind("dlfield"), lambda l: field_obj(l).structure),
    Kind("dynamic-endmarker-field/BASIC-STRUCTURE-REF", T_struct, field_kind("emfield"), lambda l: field_obj(l).structure),
    Kind("end-of-pdu-field/BASIC-STRUCTURE-REF", T_struct, field_kind("eopfield"), lambda l: field_obj(l).structure),
    Kind("end-of-pdu-field/ENV-DATA-DESC-REF", T_envdesc,
         lambda L, r: {"ddds": [{"k": "eopfield", "sn": "s_F", "id": f"{L}.s_F", "m": f"{L}/s_F", "of_env": r}]},
         lambda l: field_obj(l)._env_data_desc),
    Kind("dynamic-length-field/count DATA-OBJECT-PROP-REF", T_dop,
         lambda L, r: {"ddds": [{"k": "struct", "sn": "s_as", "id": f"{L}.s_as", "m": f"{L}/s_as", "params": []},
                                {"k": "dlfield", "sn": "s_F", "id": f"{L}.s_F", "m": f"{L}/s_F", "of": lref(L, "s_as"), "count_dop": r}]},
         lambda l: field_obj(l).determine_number_of_items.dop),
    Kind("dynamic-endmarker-field/DYN-END-DOP-REF", T_dop,
         lambda L, r: {"ddds": [{"k": "struct", "sn": "s_as", "id": f"{L}.s_as", "m": f"{L}/s_as", "params": []},
                                {"k": "emfield", "sn": "s_F", "id": f"{L}.s_F", "m": f"{L}/s_F", "of": lref(L, "s_as"), "end_dop": r}]},
         lambda l: field_obj(l).dyn_end_dop),
    Kind("env-data-desc/ENV-DATA-REF", T_envdata,
         lambda L, r: {"ddds": [{"k": "envdesc", "sn": "s_EDD", "id": f"{L}.s_EDD", "m": f"{L}/s_EDD", "envdatas": [r]}]},
         lambda l: raw_ddds(l).env_data_descs["s_EDD"].env_datas[0], core=True),
    Kind("dtc-dop/LINKED DTC-DOP-REF", T_dtcdop,
         lambda L, r: {"ddds": [{"k": "dtcdop", "sn": "s_DD", "id": f"{L}.s_DD", "m": f"{L}/s_DD", "dtcs": [], "linked": [r]}]},
         lambda l: raw_ddds(l).dtc_dops["s_DD"].linked_dtc_dops_raw[0].dtc_dop),
    Kind("dtc-dop/DTC-REF", T_dtc,
         lambda L, r: {"ddds": [{"k": "dtcdop", "sn": "s_DD", "id": f"{L}.s_DD", "m": f"{L}/s_DD", "dtcs": [{"dtcref": r}]}]},
         lambda l: raw_ddds(l).dtc_dops["s_DD"].dtcs[0]),
    Kind("service/REQUEST-REF", T_msg("requests"), lambda L, r: svc(L, request=r), lambda l: the_svc(l).request, core=True),
    Kind("service/POS-RESPONSE-REF", T_msg("posresps"), lambda L, r: svc(L, pos=[r]), lambda l: the_svc(l).positive_responses[0], core=True),
    Kind("service/NEG-RESPONSE-REF", T_msg("negresps"), lambda L, r: svc(L, neg=[r]), lambda l: the_svc(l).negative_responses[0]),
    Kind("service/FUNCT-CLASS-REF", T_fclass, lambda L, r: svc(L, fclasses=[r]), lambda l: the_svc(l).functional_classes[0], core=True),
    Kind("service/RELATED-DIAG-COMM-REF", T_service, lambda L, r: svc(L, related=[r]), lambda l: the_svc(l).related_diag_comms[0]),
    Kind("service/ENABLED-AUDIENCE-REF", T_audience, lambda L, r: svc(L, audience={"enabled": [r]}),
         lambda l: the_svc(l).audience.enabled_audiences[0]),
    Kind("service/DISABLED-AUDIENCE-REF", T_audience, lambda L, r: svc(L, audience={"disabled": [r]}),
         lambda l: the_svc(l).audience.disabled_audiences[0]),
    Kind("diag-comms/DIAG-COMM-REF", T_service, lambda L, r: {"comms": [{"k": "commref", "ref": r}]},
         lambda l: commref_target(l), core=True),
    Kind("job/FUNCT-CLASS-REF", T_fclass, lambda L, r: _job(L, fclasses=[r]), lambda l: l.diag_layer_raw.diag_comms["s_JB"].functional_classes[0]),
    Kind("job-input-param/DOP-BASE-REF", T_dop, lambda L, r: _job(L, inputs=[{"sn": "ip", "m": f"{L}/ip", "dop": r}]),
         lambda l: l.diag_layer_raw.diag_comms["s_JB"].input_params[0].dop),
    Kind("job-output-param/DOP-BASE-REF", T_dop, lambda L, r: _job(L, outputs=[{"sn": "op", "id": f"{L}.s_op", "m": f"{L}/op", "dop": r}]),
         lambda l: l.diag_layer_raw.diag_comms["s_JB"].output_params[0].dop),
    Kind("job-neg-output-param/DOP-BASE-REF", T_dop, lambda L, r: _job(L, negoutputs=[{"sn": "np", "m": f"{L}/np", "dop": r}]),
         lambda l: l.diag_layer_raw.diag_comms["s_JB"].neg_output_params[0].dop),
]
KIND = {k.name: k for k in KINDS}

# typed references (the call site passes an expected type to OdxLinkDatabase.resolve): which object kinds (reflinks kind tags)
# are acceptable, and builders of objects of ANOTHER kind that can carry the same ID
DOPBASE_TAGS = ["dop", "dtcdop", "struct", "envdata", "envdesc", "sfield", "dlfield", "emfield", "eopfield", "mux"]
TYPED: Dict[str, Tuple[List[str], List[Callable[..., Dict[str, Any]]]]] = {
    "table-struct/TABLE-KEY-REF": (["TABLE-KEY"], [T_dop, T_lengthkey]),
    "dop-unit/UNIT-REF": (["units"], [T_physdim, T_dop]),
    "unit/PHYSICAL-DIMENSION-REF": (["physdims"], [T_unit, T_dop]),
    "mux-case/STRUCTURE-REF": (["struct"], [T_dop, T_envdata]),
    "mux-default-case/STRUCTURE-REF": (["struct"], [T_dop, T_envdata]),
    "mux-switch-key/DATA-OBJECT-PROP-REF": (["dop"], [T_struct, T_dtcdop]),
    "table/KEY-DOP-REF": (["dop"], [T_struct, T_dtcdop]),
    "table-row/STRUCTURE-REF": (["struct", "envdata"], [T_dop, T_fclass]),
    "table-row/FUNCT-CLASS-REF": (["fclasses"], [T_dop, T_audience]),
    "table/TABLE-ROW-REF": (["rows"], [T_dop, T_struct]),
    "table-diag-comm-connector/DIAG-COMM-REF": (["service", "job"], [T_dop, T_msg("requests")]),
    "static-field/BASIC-STRUCTURE-REF": (["struct", "envdata"], [T_dop, T_fclass]),
    "dynamic-length-field/BASIC-STRUCTURE-REF": (["struct", "envdata"], [T_dop, T_fclass]),
    "dynamic-endmarker-field/BASIC-STRUCTURE-REF": (["struct", "envdata"], [T_dop, T_fclass]),
    "end-of-pdu-field/BASIC-STRUCTURE-REF": (["struct", "envdata"], [T_dop, T_fclass]),
    "end-of-pdu-field/ENV-DATA-DESC-REF": (["envdesc"], [T_struct, T_dop]),
    "dynamic-length-field/count DATA-OBJECT-PROP-REF": (["dop"], [T_struct, T_dtcdop]),
    "dynamic-endmarker-field/DYN-END-DOP-REF": (["dop"], [T_struct, T_dtcdop]),
    "dtc-dop/LINKED DTC-DOP-REF": (["dtcdop"], [T_dop, T_struct]),
    "dtc-dop/DTC-REF": (["dtcs"], [T_dop, T_dtcdop]),
    "service/REQUEST-REF": (["requests"], [T_msg("posresps"), T_dop]),
    "service/POS-RESPONSE-REF": (["posresps", "negresps", "gnrs"], [T_msg("requests"), T_dop]),
    "service/NEG-RESPONSE-REF": (["posresps", "negresps", "gnrs"], [T_msg("requests"), T_dop]),
    "service/FUNCT-CLASS-REF": (["fclasses"], [T_dop, T_audience]),
    "service/RELATED-DIAG-COMM-REF": (["service", "job"], [T_dop, T_msg("requests")]),
    "service/ENABLED-AUDIENCE-REF": (["audiences"], [T_fclass, T_dop]),
    "service/DISABLED-AUDIENCE-REF": (["audiences"], [T_fclass, T_dop]),
    "diag-comms/DIAG-COMM-REF": (["service", "job"], [T_dop, T_msg("requests")]),
    "job/FUNCT-CLASS-REF": (["fclasses"], [T_dop, T_audience]),
    "job-input-param/DOP-BASE-REF": (DOPBASE_TAGS, [T_fclass, T_msg("requests")]),
    "job-output-param/DOP-BASE-REF": (DOPBASE_TAGS, [T_fclass, T_msg("requests")]),
}

# ---------------------------------------------------------------------------------------------
# family (I): ODXLINK scenarios
# ---------------------------------------------------------------------------------------------
def subsets_of(xs: List[str]) -> List[List[str]]:
    return [list(c) for n in range(len(xs) + 1) for c in itertools.combinations(xs, n)]


SPEC_REF = {"ref": "SID.SPEC0", "doc": ("SPEC0", "COMPARAM-SPEC")}
SPEC0 = {"sn": "SPEC0", "id": "SID.SPEC0", "m": "spec:SPEC0", "stacks": []}
LOCS = ["LR", "LS", "LO", "LE"]  # where "X" may be defined
IMPORTERS = ["LR", "LS", "LO"]
FORMS: Dict[str, Optional[Tuple[str, str]]] = {
    "no-docref": None,
    "docref-own-layer": ("LR", "LAYER"),
    "docref-own-container": ("CA", "CONTAINER"),
    "docref-sibling-layer": ("LS", "LAYER"),
    "docref-other-container": ("CB", "CONTAINER"),
    "docref-other-layer": ("LO", "LAYER"),
    "docref-shared-layer": ("LE", "LAYER"),
    "docref-shared-container": ("CS", "CONTAINER"),
    "docref-missing-document": ("NOWHERE", "CONTAINER"),
    "docref-wrong-doctype": ("LR", "CONTAINER"),
}
# spellings of a reference element which are not well-formed ODXLINKs ((DOCREF, DOCTYPE); "missing-id-ref": no ID-REF at all)
MALFORMED_FORMS: Dict[str, Any] = {
    "docref-unknown-doctype": ("CA", "NONSENSE"),
    "docref-without-doctype": ("CA", None),
    "doctype-without-docref": (None, "CONTAINER"),
    "missing-id-ref": "NO-ID-REF",
}
IMPORT_REF = {"ref": "LID.LE", "doc": ("CS", "CONTAINER")}


def id_world(sc: Dict[str, Any]) -> Tuple[Dict[str, Any], Dict[str, Any]]:
    """sc: {"kind", "form", "defs": [loc..], "imports": [layer..], "s_first": bool, "cb_first": bool, "rtype": layer type}
    -> (world, probe)"""
    kind = KIND[sc["kind"]]
    rtype = sc.get("rtype", "BASE-VARIANT")
    LR = new_layer("LR", rtype)
    LS = new_layer("LS", rtype if rtype != "ECU-SHARED-DATA" else "BASE-VARIANT")
    LO = new_layer("LO", "BASE-VARIANT")
    LQ = new_layer("LQ", "ECU-VARIANT")
    LQ["parents"] = [{"ref": {"ref": "LID.LO"}, "ptype": "BASE-VARIANT"}]
    LE = new_layer("LE", "ECU-SHARED-DATA")
    byname = {"LR": LR, "LS": LS, "LO": LO, "LE": LE}
    for loc in sc["defs"]:
        add(byname[loc], kind.target(loc, X_ID, "T@" + loc, "t_X"))
    if sc.get("wrong") is not None:
        # an object of ANOTHER kind carries the ID X in the referring layer (the nearest fragment)
        add(LR, TYPED[sc["kind"]][1][sc["wrong"]]("LR", X_ID, "W@LR", "w_X"))
    for loc in sc.get("dormant", []):
        # an object of the target type under another ID (the re-resolution phase gives it the ID X later)
        add(byname[loc], kind.target(loc, X_ID + "_dormant", "T@" + loc, "t_X"))
    if sc.get("filler"):
        for L, l in byname.items():
            add(l, {"ddds": [aux_dop(L, "fill")]})  # every layer has a data dictionary (objects can be moved into it)
    for imp in sc["imports"]:
        byname[imp]["imports"] = [copy.deepcopy(IMPORT_REF)]
    ref: Dict[str, Any] = {"ref": X_ID}
    doc = FORMS[sc["form"]] if sc["form"] in FORMS else MALFORMED_FORMS[sc["form"]]
    if doc == "NO-ID-REF":
        ref = {"ref": None}
    elif doc is not None:
        ref["doc"] = doc
    add(LR, kind.source("LR", ref))
    ca = {"sn": "CA", "id": "CID.CA", "m": "container:CA", "layers": [LS, LR] if sc.get("s_first") else [LR, LS]}
    cb = {"sn": "CB", "id": "CID.CB", "m": "container:CB", "layers": [LO, LQ]}
    cs = {"sn": "CS", "id": "CID.CS", "m": "container:CS", "layers": [LE]}
    world: Dict[str, Any] = {"containers": [cb, ca, cs] if sc.get("cb_first") else [ca, cb, cs]}
    if rtype == "PROTOCOL":
        for l in (LR, LS):
            l["comparam_spec"] = copy.deepcopy(SPEC_REF)
        world["specs"] = [copy.deepcopy(SPEC0)]
    probe = {"mode": "id", "owner": ("layer", "LR"), "ref": ref}
    if sc["kind"] in TYPED:
        probe["accept"] = TYPED[sc["kind"]][0]
    return world, probe


def judge(expected: Tuple[str, str], loaded: bool, got: Any, err: Optional[BaseException]) -> Optional[Tuple[str, str]]:
    """-> None if fine, else (failure mode, detail)"""
    verdict, what = expected
    if verdict == "DONTCARE":
        return None
    if verdict == "FAIL":
        if loaded:
            return ("bound-instead-of-error", f"must not resolve ({what}) but loading succeeded and the reference is bound to {got!r}")
        return None
    # BIND
    if not loaded:
        return ("error-instead-of-binding", f"must resolve to {what!r} but loading raised {type(err).__name__}: {err}")
    if got != what:
        return ("wrong-target", f"must resolve to {what!r} but is bound to {got!r}")
    return None


def run_id_scenario(sc: Dict[str, Any]) -> Tuple[Tuple[str, str], Optional[Tuple[str, str]], str]:
    """-> (expected outcome, failure or None, observed summary)"""
    world, probe = id_world(sc)
    expected = reflinks.Model(world).expect(probe)
    db, err = try_load(world)
    got = None
    if db is not None:
        try:
            got = marker_of(KIND[sc["kind"]].observe(db.diag_layers["LR"]))
        except Exception as e:  # noqa: BLE001
            got = f"<unobservable: {type(e).__name__}: {e}>"
    fail = judge(expected, db is not None, got, err)
    observed = ("bound:" + str(got)) if db is not None else ("raised:" + type(err).__name__)
    return expected, fail, observed


def observed_marker(observed: str) -> Any:
    return observed[6:] if observed.startswith("bound:") else None


LOC_CLASS = {"T@LR": "own-layer", "T@LS": "sibling-layer", "T@LO": "other-container", "T@LE": "shared-layer",
             "W@LR": "wrong-kind-object-of-own-layer"}


def loc_class(marker: Any) -> str:
    if marker is None:
        return "nothing"
    return LOC_CLASS.get(marker, "other-object")


def id_key(sc: Dict[str, Any], mode: str, scope: str, expected: Tuple[str, str], got: Any) -> str:
    """finding class: reference family (or the single kind), addressing form, failure mode, where the expected and
    the actually bound object live relative to the referrer"""
    fam = "idref" if scope == "family" else "idref:" + sc["kind"]
    exp = loc_class(expected[1]) if expected[0] == "BIND" else "error"
    wk = "/wrong-kind-in-own-layer" if sc.get("wrong") is not None else ""
    return f"C10/{fam}/{sc['form']}{wk}/{mode}/expected={exp}/bound={loc_class(got)}"


def dontcare_class(why: str) -> str:
    import re
    return re.sub(r"\(.*?\)|\bID \S+|\d+ times", "", why).strip()


def describe(sc: Dict[str, Any]) -> str:
    if sc.get("wrong") is not None:
        return (f"referrer LR in CA, {sc['form']}, LR itself defines an object of ANOTHER kind with ID X, objects of the right kind with ID X "
                f"in {sc['defs'] or 'no layer'}, LE imported by {sc['imports'] or 'nobody'}")
    return (f"referrer LR ({sc.get('rtype', 'BASE-VARIANT')}) in CA, {sc['form']}, ID X defined in {sc['defs'] or 'no layer'}, "
            f"LE imported by {sc['imports'] or 'nobody'}, " + ("LS before LR" if sc.get("s_first") else "LR before LS") +
            (", CB loaded first" if sc.get("cb_first") else ""))


RTYPES = ["BASE-VARIANT", "ECU-VARIANT", "FUNCTIONAL-GROUP", "PROTOCOL", "ECU-SHARED-DATA"]


def id_cells(quick: bool) -> List[Dict[str, Any]]:
    """all (form, defs, imports, orders, referrer type) cells; a cell is evaluated for every reference kind, or (quick
    tier, "core" cells) for the core kinds only"""
    cells = []
    for form in FORMS:
        for defs in subsets_of(LOCS):
            for imps in subsets_of(IMPORTERS):
                for s_first in (False, True):
                    for cb_first in (False, True):
                        cell = {"form": form, "defs": defs, "imports": imps, "s_first": s_first, "cb_first": cb_first}
                        if quick:
                            # quick: at most one importer; document orders only where they can matter; kinds outside
                            # the core set only without imports
                            if len(imps) > 1:
                                continue
                            if s_first and imps != ["LS"]:
                                continue
                            if cb_first and imps != ["LO"]:
                                continue
                            if imps and "LE" not in defs:
                                continue  # quick: an import can only matter if the imported layer defines X
                            if imps:
                                cell["core_only"] = True
                        elif len(imps) > 1:
                            cell["core_only"] = True  # thorough: several importers at once only for the core kinds
                        cells.append(cell)
    # typed reference kinds: an object of another kind carries the ID in the referring layer, right-kind objects elsewhere
    for form in FORMS:
        for defs in subsets_of(["LS", "LO", "LE"]):
            for imps, s_first in (([], False), (["LR"], False), (["LS"], True)):
                for wrong in (0, 1):
                    if quick and (wrong == 1 or imps == ["LS"] or (imps and "LE" not in defs)):
                        continue
                    cell = {"form": form, "defs": defs, "imports": imps, "s_first": s_first, "cb_first": False, "wrong": wrong}
                    if quick and imps:
                        cell["core_only"] = True
                    cells.append(cell)
    # reference elements which are not well-formed ODXLINKs
    for form in MALFORMED_FORMS:
        for defs in ([[], ["LR"], list(LOCS)] if quick else subsets_of(LOCS)):
            cell = {"form": form, "defs": defs, "imports": [], "s_first": False, "cb_first": False}
            if quick:
                cell["core_only"] = True
            cells.append(cell)
    if not quick:
        # the referrer is a layer of another type (each type has its own raw class and resolution code path)
        for rtype in RTYPES[1:]:
            for form in FORMS:
                for defs in subsets_of(LOCS):
                    for imps, s_first in (([], False), (["LR"], False), (["LS"], True)):
                        if rtype == "ECU-SHARED-DATA" and imps:
                            continue
                        cells.append({"form": form, "defs": defs, "imports": imps, "s_first": s_first, "cb_first": False, "rtype": rtype})
    return cells


def id_unit(unit: Tuple[List[Dict[str, Any]], List[str]]) -> Part:
    try:
        return _id_unit(unit)
    finally:
        cleanup_scratch()


def _id_unit(unit: Tuple[List[Dict[str, Any]], List[str]]) -> Part:
    cells, kinds = unit
    part = Part()
    for cell in cells:
        results = []
        cell = dict(cell)
        core_only = cell.pop("core_only", False)
        for kn in kinds:
            if core_only and not KIND[kn].core:
                continue
            if cell.get("wrong") is not None and kn not in TYPED:
                continue  # untyped call sites bind whatever carries the ID; the property does not speak about kinds there
            sc = dict(cell, kind=kn)
            expected, fail, observed = run_id_scenario(sc)
            part.count("evaluations")
            part.count("odxlink_scenarios")
            part.count("expect_" + expected[0].lower())
            part.add("outcome_classes", (expected[0], observed.split(":")[0]))
            if expected[0] == "DONTCARE":
                part.add("dontcare_observations", (dontcare_class(expected[1]), observed if observed.startswith("bound:T@") else observed.split(":")[0]))
            if observed.startswith("raised:"):
                part.add("exception_types", observed[7:])
            part.add("nontrivial", digest((kn, cell["form"], cell["defs"], cell["imports"], cell.get("wrong"), expected[0],
                                           observed.split(":")[0])))
            if cell.get("wrong") is not None:
                part.count("wrong_kind_scenarios")
                part.add("wrong_kind_outcome_classes", (expected[0], observed.split(":")[0]))
            results.append((sc, expected, fail, observed))
        judged = [r for r in results if r[1][0] != "DONTCARE"]
        failed = [r for r in judged if r[2] is not None]
        modes = {r[2][0] for r in failed}
        family_wide = len(failed) == len(judged) and len(modes) == 1 and len(judged) > 1
        for sc, expected, fail, observed in failed:
            scope = "family" if family_wide else "kind"
            case = {"family": "I", "scope": scope, "sc": sc}
            part.violation(id_key(sc, fail[0], scope, expected, observed_marker(observed)), case,
                           f"{sc['kind']}: {fail[1]} [{describe(sc)}]")
    return part


# ---------------------------------------------------------------------------------------------
# family (D): references to layers and into comparam documents
# ---------------------------------------------------------------------------------------------
PARENT_TYPE = {"PROTOCOL": "ECU-SHARED-DATA", "FUNCTIONAL-GROUP": "ECU-SHARED-DATA", "BASE-VARIANT": "FUNCTIONAL-GROUP",
               "ECU-VARIANT": "BASE-VARIANT"}
D_LAYER_FORMS: Dict[str, Optional[Tuple[str, str]]] = {
    "no-docref": None,
    "docref-own-layer": ("LR", "LAYER"),
    "docref-own-container": ("CA", "CONTAINER"),
    "docref-sibling-layer": ("LS", "LAYER"),
    "docref-other-container": ("CB", "CONTAINER"),
    "docref-other-layer": ("LO", "LAYER"),
    "docref-shared-layer": ("LE", "LAYER"),
    "docref-shared-container": ("CS", "CONTAINER"),
    "docref-missing-document": ("NOWHERE", "LAYER"),
    "docref-wrong-doctype": ("LS", "CONTAINER"),
}


def d_world(sc: Dict[str, Any]) -> Tuple[Dict[str, Any], Dict[str, Any], Callable[[Any], Any]]:
    """-> (world, probe, observer(database))"""
    k = sc["kind"]
    if k in ("parent-ref", "import-ref"):
        rtype = sc.get("rtype", "BASE-VARIANT")
        ttype = PARENT_TYPE[rtype] if k == "parent-ref" else "ECU-SHARED-DATA"
        LR = new_layer("LR", rtype)
        LS = new_layer("LS", ttype)
        LO = new_layer("LO", ttype)
        LE = new_layer("LE", "ECU-SHARED-DATA")
        byname = {"LS": LS, "LO": LO, "LE": LE}
        for loc in sc["defs"]:
            byname[loc]["id"] = "PX"
        ref: Dict[str, Any] = {"ref": "PX"}
        doc = D_LAYER_FORMS[sc["form"]]
        if doc is not None:
            ref["doc"] = doc
        world: Dict[str, Any] = {}
        if rtype == "PROTOCOL":
            LR["comparam_spec"] = copy.deepcopy(SPEC_REF)
            world["specs"] = [copy.deepcopy(SPEC0)]
        if k == "parent-ref":
            LR["parents"] = [{"ref": ref, "ptype": ttype}]
            if sc.get("imports"):
                LR["imports"] = [{"ref": LE["id"], "doc": ("CS", "CONTAINER")}]
            probe = {"mode": "id", "owner": ("layer", "LR"), "ref": ref}

            def obs(db: Any) -> Any:
                return db.diag_layers["LR"].diag_layer_raw.parent_refs[0].layer
        else:
            # the IMPORT-REF is varied; what it was resolved to is visible through a plain reference to "Y", an ID
            # that every candidate layer defines
            LR["imports"] = [ref]
            for L, l in byname.items():
                add(l, T_dop(L, "Y", "Y@" + L, "t_Y"))
            add(LR, KIND["param/DOP-REF"].source("LR", {"ref": "Y"}))
            probe = {"mode": "id", "owner": ("layer", "LR"), "ref": {"ref": "Y"}}

            def obs(db: Any) -> Any:
                return rq_param(db.diag_layers["LR"]).dop
        world["containers"] = [{"sn": "CA", "id": "CID.CA", "m": "container:CA", "layers": [LS, LR] if sc.get("s_first") else [LR, LS]},
                               {"sn": "CB", "id": "CID.CB", "m": "container:CB", "layers": [LO]},
                               {"sn": "CS", "id": "CID.CS", "m": "container:CS", "layers": [LE]}]
        return world, probe, obs
    # comparam documents
    docs = {"comparam": ("SUB1", "SUB2", "COMPARAM-SUBSET"), "comparam-spec": ("SPEC1", "SPEC2", "COMPARAM-SPEC"),
            "comparam-subset": ("SUB1", "SUB2", "COMPARAM-SUBSET"), "comparam-dop": ("SUB1", "SUB2", "COMPARAM-SUBSET")}
    group = {"layer/COMPARAM-REF": "comparam", "service/COMPARAM-REF": "comparam", "protocol/COMPARAM-SPEC-REF": "comparam-spec",
             "prot-stack/COMPARAM-SUBSET-REF": "comparam-subset", "comparam/DATA-OBJECT-PROP-REF": "comparam-dop"}[k]
    d1, d2, dtype = docs[group]
    forms: Dict[str, Optional[Tuple[str, str]]] = {"no-docref": None, "docref-first-document": (d1, dtype), "docref-second-document": (d2, dtype),
                                                   "docref-missing-document": ("NOWHERE", dtype),
                                                   "docref-wrong-doctype": (d1, "CONTAINER"), "docref-layer": ("LR", "LAYER")}
    ref = {"ref": "QX"}
    if forms[sc["form"]] is not None:
        ref["doc"] = forms[sc["form"]]
    sub = {n: {"sn": n, "id": "UID." + n, "m": "subset:" + n, "comparams": [], "dops": [{"k": "dop", "sn": "cd", "id": n + ".cd", "m": n + "/cd"}]}
           for n in ("SUB1", "SUB2")}
    spec = {n: {"sn": n, "id": "SID." + n, "m": "spec:" + n, "stacks": []} for n in ("SPEC1", "SPEC2")}
    LR = new_layer("LR", "PROTOCOL" if group == "comparam-spec" else "BASE-VARIANT")
    for n in sc["defs"]:
        if group == "comparam":
            sub[n]["comparams"].append({"sn": "t_cp", "id": "QX", "m": "T@" + n, "dop": {"ref": n + ".cd"}})
        elif group == "comparam-spec":
            spec[n]["id"] = "QX"
            spec[n]["m"] = "T@" + n
        elif group == "comparam-subset":
            sub[n]["id"] = "QX"
            sub[n]["m"] = "T@" + n
        else:
            sub[n]["dops"].append({"k": "dop", "sn": "t_d", "id": "QX", "m": "T@" + n})
    owner: Tuple[str, str] = ("layer", "LR")
    if k == "layer/COMPARAM-REF":
        LR["comparams"] = [{"ref": ref, "value": "1"}]

        def obs(db: Any) -> Any:
            return db.diag_layers["LR"].diag_layer_raw.comparam_refs[0].spec
    elif k == "service/COMPARAM-REF":
        add(LR, svc("LR", comparams=[{"ref": ref, "value": "1"}]))

        def obs(db: Any) -> Any:
            return the_svc(db.diag_layers["LR"]).comparam_refs[0].spec
    elif k == "protocol/COMPARAM-SPEC-REF":
        LR["comparam_spec"] = ref

        def obs(db: Any) -> Any:
            return db.diag_layers["LR"].comparam_spec
    elif k == "prot-stack/COMPARAM-SUBSET-REF":
        spec["SPEC1"]["stacks"].append({"sn": "ps", "id": "SPEC1.ps", "m": "SPEC1/ps", "subsets": [ref]})
        owner = ("spec", "SPEC1")

        def obs(db: Any) -> Any:
            return db.comparam_specs["SPEC1"].prot_stacks[0].comparam_subsets[0]
    else:
        sub["SUB1"]["comparams"].append({"sn": "s_cp", "id": "SUB1.s_cp", "m": "SUB1/s_cp", "dop": ref})
        owner = ("subset", "SUB1")

        def obs(db: Any) -> Any:
            return db.comparam_subsets["SUB1"].comparams["s_cp"].dop
    world = {"subsets": [sub["SUB1"], sub["SUB2"]], "specs": [spec["SPEC1"], spec["SPEC2"]],
             "containers": [{"sn": "CA", "id": "CID.CA", "m": "container:CA", "layers": [LR]}]}
    if sc.get("reverse"):
        world["subsets"].reverse()
        world["specs"].reverse()
    return world, {"mode": "id", "owner": owner, "ref": ref}, obs


D_DOC_KINDS = ["layer/COMPARAM-REF", "service/COMPARAM-REF", "protocol/COMPARAM-SPEC-REF", "prot-stack/COMPARAM-SUBSET-REF",
               "comparam/DATA-OBJECT-PROP-REF"]
D_DOC_FORMS = ["no-docref", "docref-first-document", "docref-second-document", "docref-missing-document", "docref-wrong-doctype", "docref-layer"]


def d_scenarios() -> List[Dict[str, Any]]:
    out: List[Dict[str, Any]] = []
    for rtype in PARENT_TYPE:
        for form in D_LAYER_FORMS:
            for defs in subsets_of(["LS", "LO", "LE"]):
                for s_first in (False, True):
                    for imp in (False, True):
                        out.append({"kind": "parent-ref", "rtype": rtype, "form": form, "defs": defs, "s_first": s_first, "imports": imp})
    for form in D_LAYER_FORMS:
        for defs in subsets_of(["LS", "LO", "LE"]):
            for s_first in (False, True):
                out.append({"kind": "import-ref", "form": form, "defs": defs, "s_first": s_first})
    for k in D_DOC_KINDS:
        two = ["SPEC1", "SPEC2"] if k == "protocol/COMPARAM-SPEC-REF" else ["SUB1", "SUB2"]
        for form in D_DOC_FORMS:
            for defs in subsets_of(two):
                for rev in (False, True):
                    out.append({"kind": k, "form": form, "defs": defs, "reverse": rev})
    return out


def run_d_scenario(sc: Dict[str, Any]) -> Tuple[Tuple[str, str], Optional[Tuple[str, str]], str]:
    world, probe, obs = d_world(sc)
    expected = reflinks.Model(world).expect(probe)
    db, err = try_load(world)
    got = None
    if db is not None:
        try:
            got = marker_of(obs(db))
        except Exception as e:  # noqa: BLE001
            got = f"<unobservable: {type(e).__name__}: {e}>"
    fail = judge(expected, db is not None, got, err)
    observed = ("bound:" + str(got)) if db is not None else ("raised:" + type(err).__name__)
    return expected, fail, observed


def marker_class(m: Any) -> str:
    if m is None:
        return "nothing"
    m = str(m)
    for suffix, name in (("LR", "own-layer"), ("LS", "sibling-layer"), ("LO", "other-container"), ("LE", "shared-layer"),
                         ("SUB1", "first-document"), ("SUB2", "second-document"), ("SPEC1", "first-document"), ("SPEC2", "second-document")):
        if m.endswith("@" + suffix) or m.endswith(":" + suffix):
            return name
    return "other-object"


def d_key(sc: Dict[str, Any], mode: str, expected: Tuple[str, str], got: Any) -> str:
    rt = "/referrer=" + sc["rtype"] if sc.get("rtype") else ""
    exp = marker_class(expected[1]) if expected[0] == "BIND" else "error"
    return f"C10/idref:{sc['kind']}/{sc['form']}{rt}/{mode}/expected={exp}/bound={marker_class(got)}"


def d_unit(scs: List[Dict[str, Any]]) -> Part:
    try:
        return _d_unit(scs)
    finally:
        cleanup_scratch()


def _d_unit(scs: List[Dict[str, Any]]) -> Part:
    part = Part()
    for sc in scs:
        expected, fail, observed = run_d_scenario(sc)
        part.count("evaluations")
        part.count("layer_and_comparam_scenarios")
        part.count("expect_" + expected[0].lower())
        part.add("outcome_classes", (expected[0], observed.split(":")[0]))
        if observed.startswith("raised:"):
            part.add("exception_types", observed[7:])
        part.add("nontrivial", digest((sc["kind"], sc["form"], sc["defs"], sc.get("rtype"), expected[0], observed.split(":")[0])))
        if fail is not None:
            part.violation(d_key(sc, fail[0], expected, observed_marker(observed)), {"family": "D", "sc": sc},
                           f"{sc['kind']}: {fail[1]} [{sc}]")
    return part


# ---------------------------------------------------------------------------------------------
# family (S): SNREF scenarios and retarget_snrefs
# ---------------------------------------------------------------------------------------------
# hierarchy: LG (FUNCTIONAL-GROUP, container CB) <- LP (BASE-VARIANT, CA) <- LR, LS (ECU-VARIANTs, CA); LO (BASE-VARIANT, CB)
# unrelated; LE (ECU-SHARED-DATA, CS) optionally imported by the owner of the reference
S_LOCS = ["LR", "LP", "LG", "LS", "LO", "LE"]
S_KINDS: Dict[str, Tuple[str, str]] = {
    # name -> (KINDS entry providing source / target / observer, reflinks SNREF kind)
    "param/DOP-SNREF": ("param/DOP-REF", "dop"),
    "struct-param/DOP-SNREF": ("struct-param/DOP-REF", "dop"),
    "length-key/DOP-SNREF": ("length-key/DOP-REF", "dop"),
    "table-key/TABLE-SNREF": ("table-key/TABLE-REF", "table"),
    "mux-case/STRUCTURE-SNREF": ("mux-case/STRUCTURE-REF", "struct"),
    "mux-default-case/STRUCTURE-SNREF": ("mux-default-case/STRUCTURE-REF", "struct"),
    "table-row/STRUCTURE-SNREF": ("table-row/STRUCTURE-REF", "struct"),
    "table-row/DATA-OBJECT-PROP-SNREF": ("table-row/DATA-OBJECT-PROP-REF", "rowdop"),
    "static-field/BASIC-STRUCTURE-SNREF": ("static-field/BASIC-STRUCTURE-REF", "basicstruct"),
    "dynamic-length-field/BASIC-STRUCTURE-SNREF": ("dynamic-length-field/BASIC-STRUCTURE-REF", "basicstruct"),
    "dynamic-endmarker-field/BASIC-STRUCTURE-SNREF": ("dynamic-endmarker-field/BASIC-STRUCTURE-REF", "basicstruct"),
    "end-of-pdu-field/BASIC-STRUCTURE-SNREF": ("end-of-pdu-field/BASIC-STRUCTURE-REF", "basicstruct"),
    "end-of-pdu-field/ENV-DATA-DESC-SNREF": ("end-of-pdu-field/ENV-DATA-DESC-REF", "envdesc"),
    "table-diag-comm-connector/DIAG-COMM-SNREF": ("table-diag-comm-connector/DIAG-COMM-REF", "diagcomm"),
}
NI_OF = {"dop": "dops", "struct": "dops", "rowdop": "dops", "basicstruct": "dops", "envdesc": "dops", "table": "tables", "diagcomm": "comms"}
# objects of every DDDS kind (and a service) named N, for the "reference names an object of another kind" scenarios
OTHER_TARGETS: Dict[str, Callable[..., Dict[str, Any]]] = {
    "dop": T_dop, "struct": T_struct, "table": T_table, "envdata": T_envdata, "envdesc": T_envdesc, "dtcdop": T_dtcdop, "service": T_service,
    "mux": lambda L, i, m, sn: {"ddds": [aux_dop(L, "t_md"), {"k": "mux", "sn": sn, "id": i, "m": m, "key_dop": lref(L, "t_md"), "cases": []}]},
    "sfield": lambda L, i, m, sn: {"ddds": [{"k": "struct", "sn": "t_fs", "id": f"{L}.t_fs", "m": f"{L}/t_fs", "params": []},
                                            {"k": "sfield", "sn": sn, "id": i, "m": m, "of": lref(L, "t_fs")}]},
}


EXT_OWNERS = ["LH", "PA"]  # SNREF-owning ancestors that cannot have PARENT-REFs of the usual kind: ECU-SHARED-DATA, PROTOCOL


def s_hierarchy(extended: bool = False) -> Dict[str, Dict[str, Any]]:
    """extended: additionally LH (ECU-SHARED-DATA, container CA, second parent of LP) and PA (PROTOCOL, container CB,
    parent of LG), i.e. LR/LS <- LP <- {LG <- PA, LH}"""
    LG = new_layer("LG", "FUNCTIONAL-GROUP")
    LP = new_layer("LP", "BASE-VARIANT")
    LP["parents"] = [{"ref": {"ref": "LID.LG", "doc": ("CB", "CONTAINER")}, "ptype": "FUNCTIONAL-GROUP"}]
    ext: Dict[str, Dict[str, Any]] = {}
    if extended:
        LH = new_layer("LH", "ECU-SHARED-DATA")
        PA = new_layer("PA", "PROTOCOL")
        PA["comparam_spec"] = copy.deepcopy(SPEC_REF)
        LP["parents"].append({"ref": {"ref": "LID.LH"}, "ptype": "ECU-SHARED-DATA"})
        LG["parents"] = [{"ref": {"ref": "LID.PA"}, "ptype": "PROTOCOL"}]
        ext = {"LH": LH, "PA": PA}
    LR = new_layer("LR", "ECU-VARIANT")
    LR["parents"] = [{"ref": {"ref": "LID.LP"}, "ptype": "BASE-VARIANT"}]
    LS = new_layer("LS", "ECU-VARIANT")
    LS["parents"] = [{"ref": {"ref": "LID.LP", "doc": ("LP", "LAYER")}, "ptype": "BASE-VARIANT"}]
    LO = new_layer("LO", "BASE-VARIANT")
    LE = new_layer("LE", "ECU-SHARED-DATA")
    return dict({"LG": LG, "LP": LP, "LR": LR, "LS": LS, "LO": LO, "LE": LE}, **ext)


def s_twin_hierarchy() -> Dict[str, Dict[str, Any]]:
    """two parents of EQUAL priority: LR <- LP <- {LG, LG2} (both FUNCTIONAL-GROUPs) <- PA (PROTOCOL, a diamond).
    The same short name inherited from LG and from LG2 as DIFFERENT objects is not unique in LP's view; the SAME object
    reaching LP on both ways (defined in PA only) is."""
    PA = new_layer("PA", "PROTOCOL")
    PA["comparam_spec"] = copy.deepcopy(SPEC_REF)
    LG = new_layer("LG", "FUNCTIONAL-GROUP")
    LG2 = new_layer("LG2", "FUNCTIONAL-GROUP")
    for g in (LG, LG2):
        g["parents"] = [{"ref": {"ref": "LID.PA"}, "ptype": "PROTOCOL"}]
    LP = new_layer("LP", "BASE-VARIANT")
    LP["parents"] = [{"ref": {"ref": "LID.LG", "doc": ("CB", "CONTAINER")}, "ptype": "FUNCTIONAL-GROUP"},
                     {"ref": {"ref": "LID.LG2", "doc": ("LG2", "LAYER")}, "ptype": "FUNCTIONAL-GROUP"}]
    LR = new_layer("LR", "ECU-VARIANT")
    LR["parents"] = [{"ref": {"ref": "LID.LP"}, "ptype": "BASE-VARIANT"}]
    return {"PA": PA, "LG": LG, "LG2": LG2, "LP": LP, "LR": LR}


def s_twin_assemble(L: Dict[str, Dict[str, Any]]) -> Dict[str, Any]:
    return {"containers": [{"sn": "CA", "id": "CID.CA", "m": "container:CA", "layers": [L["LP"], L["LR"]]},
                           {"sn": "CB", "id": "CID.CB", "m": "container:CB", "layers": [L["PA"], L["LG"], L["LG2"]]}],
            "specs": [copy.deepcopy(SPEC0)]}


def s_assemble(L: Dict[str, Dict[str, Any]]) -> Dict[str, Any]:
    w: Dict[str, Any] = {"containers": [{"sn": "CA", "id": "CID.CA", "m": "container:CA", "layers": [L["LP"], L["LR"], L["LS"]]},
                                        {"sn": "CB", "id": "CID.CB", "m": "container:CB", "layers": [L["LG"], L["LO"]]},
                                        {"sn": "CS", "id": "CID.CS", "m": "container:CS", "layers": [L["LE"]]}]}
    if "LH" in L:
        w["containers"][0]["layers"].append(L["LH"])
        w["containers"][1]["layers"].append(L["PA"])
        w["specs"] = [copy.deepcopy(SPEC0)]
    return w


def s_world(sc: Dict[str, Any]) -> Tuple[Dict[str, Any], Dict[str, Any], Callable[[Any], Any]]:
    """sc: {"kind", "owner": "LR"|"LP", "defs": [loc..], "ni": [layer whose PARENT-REF excludes N..], "import": bool,
            "as": other object kind (optional: N is defined as that kind instead), "dup": bool}"""
    base, snkind = S_KINDS[sc["kind"]]
    kind = KIND[base]
    owner = sc["owner"]
    L = s_twin_hierarchy() if sc.get("twin") else s_hierarchy(extended=owner in EXT_OWNERS)
    tgt = OTHER_TARGETS[sc["as"]] if sc.get("as") else kind.target
    name = sc.get("name", "N")  # also python keywords and names starting with a digit (both legal ODX short names)
    for loc in sc["defs"]:
        extra = tgt(loc, f"{loc}.N", "N@" + loc, name)
        if sc.get("twin"):
            # auxiliary objects of the target get layer-specific short names: only N itself may collide between the twin parents
            for objs in extra.values():
                for o in objs:
                    if isinstance(o, dict) and o.get("sn", name) != name:
                        o["sn"] = f"{o['sn']}_{loc}"
        add(L[loc], extra)
    for loc in sc.get("also_defs", []):
        # a second object of the same short name but of ANOTHER kind
        add(L[loc], OTHER_TARGETS[sc["also"]](loc, f"{loc}.Nb", "Nb@" + loc, name))
    if sc.get("dup"):
        d = tgt(owner, f"{owner}.N2", "N2@" + owner, name)
        # only the object named N itself is duplicated, not its auxiliary objects
        for key, objs in d.items():
            L[owner].setdefault(key, []).extend(o for o in objs if o.get("sn") == name)
    for l in sc.get("ni", []):
        for pr in L[l]["parents"]:
            pr["ni"] = {NI_OF.get(snkind, "dops") if not sc.get("as") else
                        ("tables" if sc["as"] == "table" else "comms" if sc["as"] == "service" else "dops"): [name]}
    for idx in sc.get("ni_refs", []):
        # twin hierarchy: NOT-INHERITED on ONE of LP's two PARENT-REFs
        L["LP"]["parents"][idx]["ni"] = {NI_OF.get(snkind, "dops"): [name]}
    if sc.get("import"):
        L[owner]["imports"] = [copy.deepcopy(IMPORT_REF)]
    add(L[owner], kind.source(owner, {"snref": name}))
    probe = {"mode": "sn", "owner": owner, "kind": snkind, "name": name}

    def obs(db: Any) -> Any:
        return kind.observe(db.diag_layers[owner])
    if sc.get("twin"):
        return s_twin_assemble(L), probe, obs
    return s_assemble(L), probe, obs


def s2_world(sc: Dict[str, Any]) -> Tuple[Dict[str, Any], Dict[str, Any], Callable[[Any], Any]]:
    """SNREFs whose context is not the layer's inherited dictionary: TABLE-KEY-SNREF (parameter list), TABLE-ROW-SNREF
    (rows of the table), PROT-STACK-SNREF (stacks of the comparam spec), PROTOCOL-SNREF (protocols among the ancestors)"""
    k = sc["kind"]
    L = s_hierarchy()
    owner = sc.get("owner", "LR")
    world_extra: Dict[str, Any] = {}
    if k == "table-struct/TABLE-KEY-SNREF":
        K = sc.get("name", "K")
        add(L[owner], T_row(owner, f"{owner}.row", f"{owner}/row", "row"))

        def tk(sn: str, n: int) -> Dict[str, Any]:
            return {"t": "TABLE-KEY", "sn": sn, "id": f"{owner}.tk{n}", "m": f"key{n}", "table": lref(owner, "t_tab")}
        sit = sc["situation"]
        ts = {"t": "TABLE-STRUCT", "sn": "p", "m": "p", "key": {"snref": K}}
        other = [CC, tk(K, 9)]
        plist = {"unique": [CC, tk(K, 1), ts], "missing": [CC, tk("Z", 1), ts], "ambiguous": [CC, tk(K, 1), tk(K, 2), ts],
                 "wrong-type": [CC, {"t": "VALUE", "sn": K, "m": "value", "dop": lref(owner, "t_kd")}, ts],
                 "only-in-other-list": [CC, ts], "key-after-struct": [CC, ts, tk(K, 1)],
                 # MIXED-KIND duplicates: the name is carried by a TABLE-KEY and by a parameter of another kind
                 "mixed-key-then-value": [CC, tk(K, 1), {"t": "VALUE", "sn": K, "m": "value", "dop": lref(owner, "t_kd")}, ts],
                 "mixed-value-then-key": [CC, {"t": "VALUE", "sn": K, "m": "value", "dop": lref(owner, "t_kd")}, tk(K, 1), ts],
                 "mixed-key-and-coded-const": [CC, {"t": "CODED-CONST", "sn": K, "m": "const", "value": 1}, tk(K, 1), ts],
                 "mixed-key-and-length-key": [CC, tk(K, 1), {"t": "LENGTH-KEY", "sn": K, "id": f"{owner}.lk", "m": "lengthkey",
                                                              "dop": lref(owner, "t_kd")}, ts],
                 "mixed-key-after-struct": [CC, {"t": "VALUE", "sn": K, "m": "value", "dop": lref(owner, "t_kd")}, ts, tk(K, 1)],
                 "same-name-in-other-list": [CC, tk(K, 1), ts]}[sit]
        where = sc["where"]
        if where == "request":
            add(L[owner], {"requests": [{"sn": "s_RQ", "id": f"{owner}.s_RQ", "m": "s_RQ", "params": plist},
                                        {"sn": "o_RQ", "id": f"{owner}.o_RQ", "m": "o_RQ", "params": other}]})

            def obs(db: Any) -> Any:
                return db.diag_layers[owner].diag_layer_raw.requests["s_RQ"].parameters["p"].table_key
        elif where == "response":
            add(L[owner], {"posresps": [{"sn": "s_RS", "id": f"{owner}.s_RS", "m": "s_RS", "params": plist}],
                           "requests": [{"sn": "o_RQ", "id": f"{owner}.o_RQ", "m": "o_RQ", "params": other}]})

            def obs(db: Any) -> Any:
                return db.diag_layers[owner].diag_layer_raw.positive_responses["s_RS"].parameters["p"].table_key
        else:
            add(L[owner], {"ddds": [{"k": "struct", "sn": "s_ST", "id": f"{owner}.s_ST", "m": "s_ST", "params": plist[1:]}],
                           "requests": [{"sn": "o_RQ", "id": f"{owner}.o_RQ", "m": "o_RQ", "params": other}]})

            def obs(db: Any) -> Any:
                return raw_ddds(db.diag_layers[owner]).structures["s_ST"].parameters["p"].table_key
        probe = {"mode": "sn", "owner": owner, "kind": "tablekey", "name": K, "params": plist if where != "structure" else plist[1:]}
        return s_assemble(L), probe, obs
    if k == "table-key/TABLE-ROW-SNREF":
        # tables named TB in the owner and (optionally) in other layers; rows per situation
        sit = sc["situation"]
        ROW = sc.get("name", "ROW")

        def table(Lname: str, rows: List[str]) -> Dict[str, Any]:
            return {"ddds": [aux_dop(Lname, "t_kd"),
                             {"k": "table", "sn": "TB", "id": f"{Lname}.TB", "m": f"TB@{Lname}", "key_dop": lref(Lname, "t_kd"),
                              "rows": [{"sn": r, "id": f"{Lname}.TB.{i}", "m": f"row{i}:{r}@{Lname}", "key": i, "dop": lref(Lname, "t_kd")}
                                       for i, r in enumerate(rows)]}]}
        rows = {"unique": ["A", ROW, "B"], "missing": ["A", "B"], "ambiguous": [ROW, "A", ROW]}[sit]
        for loc in sc["tables"]:
            add(L[loc], table(loc, rows if loc == sc["tables"][0] else [ROW, "C"]))
        if sc.get("other_table_has_row"):
            add(L[owner], {"ddds": [{"k": "table", "sn": "TB2", "id": f"{owner}.TB2", "m": f"TB2@{owner}", "key_dop": lref(sc["tables"][0], "t_kd")
                                     if sc["tables"][0] == owner else None,
                                     "rows": [{"sn": ROW, "id": f"{owner}.TB2.0", "m": "row:ROW@TB2", "key": 0, "struct": None}]}]})
        tref = {"snref": "TB"} if sc["table_by"] == "snref" else {"ref": f"{sc['tables'][0]}.TB", "doc": (sc["tables"][0], "LAYER")}
        add(L[owner], S_rq(owner, [{"t": "TABLE-KEY", "sn": "p", "id": f"{owner}.s_tk", "m": "p", "table": tref, "row": {"snref": ROW}}]))
        probe = {"mode": "sn", "owner": owner, "kind": "tablerow", "name": ROW, "table": tref}

        def obs(db: Any) -> Any:
            return rq_param(db.diag_layers[owner]).table_row
        return s_assemble(L), probe, obs
    if k == "protocol/PROT-STACK-SNREF":
        PS = sc.get("name", "PS")
        stacks = {"unique": ["A", PS], "missing": ["A"], "ambiguous": [PS, PS]}[sc["situation"]]
        spec = {"sn": "SPEC0", "id": "SID.SPEC0", "m": "spec:SPEC0",
                "stacks": [{"sn": s, "id": f"SPEC0.ps{i}", "m": f"stack{i}:{s}", "subsets": []} for i, s in enumerate(stacks)]}
        spec2 = {"sn": "SPEC9", "id": "SID.SPEC9", "m": "spec:SPEC9", "stacks": [{"sn": PS, "id": "SPEC9.ps", "m": "stack:PS@SPEC9", "subsets": []}]}
        PR = new_layer("PR", "PROTOCOL")
        PR["comparam_spec"] = copy.deepcopy(SPEC_REF)
        PR["prot_stack"] = PS
        world = s_assemble(L)
        world["containers"][0]["layers"].append(PR)
        world["specs"] = [spec2, spec] if sc.get("reverse") else [spec, spec2]
        probe = {"mode": "sn", "owner": "PR", "kind": "protstack", "name": PS}

        def obs(db: Any) -> Any:
            return db.diag_layers["PR"].prot_stack
        return world, probe, obs
    if k == "service/PROTOCOL-SNREF":
        # PROTOCOL layers: PA is (or is not) an ancestor of the owner; PB never is
        PA = new_layer("PA", "PROTOCOL")
        PA["comparam_spec"] = copy.deepcopy(SPEC_REF)
        PB = new_layer("PB", "PROTOCOL")
        PB["comparam_spec"] = copy.deepcopy(SPEC_REF)
        if sc["situation"] == "ancestor":
            L["LG"]["parents"] = [{"ref": {"ref": "LID.PA", "doc": ("CA", "CONTAINER")}, "ptype": "PROTOCOL"}]
        name = {"ancestor": "PA", "not-an-ancestor": "PA", "missing": "PZ", "not-a-protocol": "LP"}[sc["situation"]]
        add(L[owner], svc(owner, protocols=[name]))
        world = s_assemble(L)
        world["containers"][0]["layers"] += [PA, PB]
        world["specs"] = [copy.deepcopy(SPEC0)]
        probe = {"mode": "sn", "owner": owner, "kind": "protocol", "name": name}

        def obs(db: Any) -> Any:
            return the_svc(db.diag_layers[owner]).protocols[0]
        return world, probe, obs
    raise ValueError(k)


QUICK_SKIPPED_S_KINDS = ["dynamic-length-field/BASIC-STRUCTURE-SNREF", "dynamic-endmarker-field/BASIC-STRUCTURE-SNREF"]


def s_scenarios(quick: bool) -> List[Dict[str, Any]]:
    out: List[Dict[str, Any]] = []
    for kind in S_KINDS:
        if quick and kind in QUICK_SKIPPED_S_KINDS:
            continue  # same Field._resolve_snrefs as the static and end-of-pdu field; thorough tier only
        for owner in ("LR", "LP"):
            for defs in subsets_of(S_LOCS):
                if quick and (("LS" in defs and "LO" in defs) or ("LO" in defs and len(defs) > 2)):
                    continue  # quick: the two layers outside the owner's ancestry are not combined; the unrelated layer
                    # LO only alone or with one other definition
                for ni in ([], ["LR"], ["LP"], ["LR", "LP"]):
                    for imp in (False, True):
                        if quick and ((imp and "LE" not in defs) or len(ni) > 1):
                            continue  # quick: an import can only matter if the shared layer defines N; one exclusion at a time
                        out.append({"fam": "S", "kind": kind, "owner": owner, "defs": defs, "ni": ni, "import": imp})
        # N names an object of another kind, in the owner / its parent; N twice in the owner
        for owner in ("LR", "LP"):
            parent = {"LR": "LP", "LP": "LG"}[owner]
            for other in OTHER_TARGETS:
                for defs in ([owner], [parent], [owner, parent]):
                    out.append({"fam": "S", "kind": kind, "owner": owner, "defs": defs, "ni": [], "import": False, "as": other})
            for defs in ([owner], [owner, parent]):
                out.append({"fam": "S", "kind": kind, "owner": owner, "defs": defs, "ni": [], "import": False, "dup": True})
    # the name is carried by two objects of DIFFERENT kinds (local/local, local/inherited, inherited/inherited): a DOP-SNREF sees
    # both when both are DOP-BASE objects and must fail; every other SNREF only sees its own collection
    main_kind = {"dop": "dop", "table": "table", "struct": "struct", "rowdop": "dop", "basicstruct": "struct", "envdesc": "envdesc",
                 "diagcomm": "service"}
    for kind, (_, snkind) in S_KINDS.items():
        if quick and kind in QUICK_SKIPPED_S_KINDS:
            continue
        full = snkind == "dop"
        for owner in ("LR", "LP"):
            chain = {"LR": ["LR", "LP", "LG"], "LP": ["LP", "LG"]}[owner]
            for also in OTHER_TARGETS:
                if also == main_kind[snkind]:
                    continue
                if not full and also not in ("dop", "struct", "table"):
                    continue
                for d1 in chain:
                    for d2 in chain + (["LR"] if owner == "LP" and full else []):  # LR: ambiguous only in the child's view
                        if not full and (d1, d2) not in ((chain[0], chain[0]), (chain[0], chain[1]), (chain[1], chain[0])):
                            continue
                        out.append({"fam": "S", "kind": kind, "owner": owner, "defs": [d1], "ni": [], "import": False, "also": also,
                                    "also_defs": [d2]})
        # short names which are python keywords or start with a digit
        for owner in ("LR", "LP"):
            parent = {"LR": "LP", "LP": "LG"}[owner]
            for name in ("class", "1st"):
                for defs in ([owner], [parent], [owner, parent]):
                    out.append({"fam": "S", "kind": kind, "owner": owner, "defs": defs, "ni": [], "import": False, "name": name})
    for name in ("class", "1st"):
        for owner in ("LR", "LP"):
            for where in ("request", "response", "structure"):
                out.append({"fam": "S2", "kind": "table-struct/TABLE-KEY-SNREF", "owner": owner, "where": where, "situation": "unique", "name": name})
            for table_by in ("idref", "snref"):
                out.append({"fam": "S2", "kind": "table-key/TABLE-ROW-SNREF", "owner": owner, "situation": "unique", "table_by": table_by,
                            "tables": [owner], "name": name})
        out.append({"fam": "S2", "kind": "protocol/PROT-STACK-SNREF", "situation": "unique", "reverse": False, "name": name})
    # the name reaches LP from two parents of equal priority (different objects: not unique; the same object via a diamond: unique)
    twin_kinds = (["param/DOP-SNREF", "table-diag-comm-connector/DIAG-COMM-SNREF"] if quick else list(S_KINDS))
    for kind in twin_kinds:
        for owner in ("LP", "LR"):
            for defs in subsets_of(["PA", "LG", "LG2", "LP"] + (["LR"] if owner == "LR" else [])):
                for ni_refs in ([], [0], [1]):
                    out.append({"fam": "S", "kind": kind, "owner": owner, "defs": defs, "ni": [], "ni_refs": ni_refs, "import": False,
                                "twin": True})
    # SNREFs owned by an ECU-SHARED-DATA (LH) / PROTOCOL (PA) ancestor: retargeting to a descendant must rebind them too
    ext_kinds = (["param/DOP-SNREF", "table-key/TABLE-SNREF", "mux-case/STRUCTURE-SNREF", "static-field/BASIC-STRUCTURE-SNREF",
                  "table-diag-comm-connector/DIAG-COMM-SNREF"] if quick else list(S_KINDS))
    for kind in ext_kinds:
        for owner in EXT_OWNERS:
            for defs in subsets_of([owner, "LR", "LP", "LG", "LS"]):
                for ni in ([], ["LR"], ["LP"], ["LG"]):
                    if quick and ni == ["LG"]:
                        continue
                    out.append({"fam": "S", "kind": kind, "owner": owner, "defs": defs, "ni": ni, "import": False})
    for owner in ("LR", "LP"):
        for where in ("request", "response", "structure"):
            for sit in ("unique", "missing", "ambiguous", "wrong-type", "only-in-other-list", "key-after-struct", "same-name-in-other-list",
                        "mixed-key-then-value", "mixed-value-then-key", "mixed-key-and-coded-const", "mixed-key-and-length-key",
                        "mixed-key-after-struct"):
                out.append({"fam": "S2", "kind": "table-struct/TABLE-KEY-SNREF", "owner": owner, "where": where, "situation": sit})
        for sit in ("unique", "missing", "ambiguous"):
            for table_by in ("idref", "snref"):
                for tables in ([owner], ["LP"], ["LP", "LR"], ["LG"], ["LR", "LS"], ["LP", "LR", "LS"], ["LG", "LR"]):
                    if table_by == "idref" and tables[0] not in (owner, "LP", "LG"):
                        continue
                    out.append({"fam": "S2", "kind": "table-key/TABLE-ROW-SNREF", "owner": owner, "situation": sit, "table_by": table_by,
                                "tables": tables})
        for sit in ("ancestor", "not-an-ancestor", "missing", "not-a-protocol"):
            out.append({"fam": "S2", "kind": "service/PROTOCOL-SNREF", "owner": owner, "situation": sit})
    for sit in ("unique", "missing", "ambiguous"):
        for rev in (False, True):
            out.append({"fam": "S2", "kind": "protocol/PROT-STACK-SNREF", "situation": sit, "reverse": rev})
    if quick:
        for sc in out:
            sc["quick"] = True
    return out


def rel_class(owner: str, marker: Any) -> str:
    """where the bound object lives relative to the owner of the reference"""
    if marker is None:
        return "nothing"
    m = str(marker)
    if "@" not in m:
        return "object"
    loc = m.rsplit("@", 1)[1]
    if owner in EXT_OWNERS:
        if loc == owner:
            return "own-layer"
        heirs = ["LP", "LR", "LS"] + (["LG"] if owner == "PA" else [])
        return "descendant" if loc in heirs else "other:" + loc
    order = ["LR", "LP", "LG"] if owner == "LR" else ["LP", "LG"]
    if loc == owner:
        return "own-layer"
    if loc in order:
        return ["own-layer", "parent", "grandparent"][order.index(loc)]
    if loc in ("LR", "LS") and owner == "LP":
        return "child"
    return {"LS": "sibling", "LO": "unrelated-layer", "LE": "shared-layer"}.get(loc, "other:" + loc)


RETARGETS = ["LR", "LS", "LP", "LO"]
RETARGETS_QUICK = ["LR", "LS", "LP"]  # quick: without the unrelated layer (a pure negative control)


def run_s_scenario(sc: Dict[str, Any]) -> List[Tuple[str, Tuple[str, str], Optional[Tuple[str, str]], str]]:
    """-> [(phase, expected, failure, observed)] for phase "load" and "retarget:<layer>" / "restore:<layer>" """
    import odxtools.exceptions as oe
    from odxtools.utils import retarget_snrefs
    build = s_world if sc["fam"] == "S" else s2_world
    world, probe, obs = build(sc)
    model = reflinks.Model(world)
    results = []

    def look(db: Any) -> Any:
        try:
            return marker_of(obs(db))
        except Exception as e:  # noqa: BLE001
            return f"<unobservable: {type(e).__name__}: {e}>"

    expected = model.expect(probe)
    db, err = try_load(world)
    got = look(db) if db is not None else None
    results.append(("load", expected, judge(expected, db is not None, got, err),
                    ("bound:" + str(got)) if db is not None else ("raised:" + type(err).__name__)))
    if db is None:
        return results
    owner = probe["owner"]
    old = oe.strict_mode
    oe.strict_mode = True
    try:
        for target in (RETARGETS_QUICK if sc.get("quick") else RETARGETS):
            if target not in model.layers:
                continue
            if db is None:  # the previous step raised: the database may be half re-targeted, start from a fresh one
                db, _ = try_load(world)
                if db is None:
                    break
            for phase, tgt in (("retarget", target), ("restore", owner)):
                exp = model.expect_retargeted(probe, tgt) if phase == "retarget" else model.snref(owner, probe)
                e2: Optional[BaseException] = None
                try:
                    retarget_snrefs(db, db.diag_layers[tgt])
                except Exception as e:  # noqa: BLE001
                    e2 = e
                in_scope = owner in model.retarget_scope(tgt)
                if e2 is not None and not in_scope and exp[0] == "BIND":
                    # a failure caused by another layer's references is not about this probe
                    exp = ("DONTCARE", "retargeting failed outside the probe's scope")
                g = look(db) if e2 is None else None
                results.append((f"{phase}:{rel_class(owner, 'x@' + tgt)}", exp, judge(exp, e2 is None, g, e2),
                                ("bound:" + str(g)) if e2 is None else ("raised:" + type(e2).__name__)))
                if e2 is not None:
                    db = None
                    break
    finally:
        oe.strict_mode = old
    return results


def s_key(sc: Dict[str, Any], phase: str, mode: str, expected: Tuple[str, str], got: Any) -> str:
    owner = sc.get("owner", "PR")
    exp = rel_class(owner, expected[1]) if expected[0] == "BIND" else "error"
    sit = "/" + sc["situation"] if sc.get("situation") else ""
    if sc.get("as"):
        sit += "/names-a-" + sc["as"]
    if sc.get("dup"):
        sit += "/duplicate-name"
    if sc.get("twin"):
        sit += "/two-equal-priority-parents"
    if sc.get("also"):
        sit += "/and-a-" + sc["also"]
    if sc.get("name"):
        sit += "/keyword-name" if sc["name"].isidentifier() else "/digit-first-name"
    ph = "" if phase == "load" else "/after-" + phase
    return f"C10/snref:{sc['kind']}{sit}{ph}/{mode}/expected={exp}/bound={rel_class(owner, got)}"


def s_unit(scs: List[Dict[str, Any]]) -> Part:
    try:
        return _s_unit(scs)
    finally:
        cleanup_scratch()


def _s_unit(scs: List[Dict[str, Any]]) -> Part:
    part = Part()
    for sc in scs:
        for phase, expected, fail, observed in run_s_scenario(sc):
            part.count("evaluations")
            part.count("snref_load_checks" if phase == "load" else "snref_retarget_checks")
            part.count("expect_" + expected[0].lower())
            part.add("outcome_classes", (expected[0], observed.split(":")[0]))
            if phase != "load":
                part.add("retarget_outcome_classes", (phase.split(":")[0], expected[0], observed.split(":")[0]))
            if observed.startswith("raised:"):
                part.add("exception_types", observed[7:])
            part.add("nontrivial", digest((sc["kind"], sc.get("owner"), sc.get("defs"), sc.get("ni"), sc.get("situation"), sc.get("as"),
                                           sc.get("also"), sc.get("also_defs"), sc.get("name"), sc.get("twin"), sc.get("ni_refs"), phase, expected[0], observed.split(":")[0])))
            if fail is not None:
                part.violation(s_key(sc, phase, fail[0], expected, observed_marker(observed)), {"family": "S", "sc": sc},
                               f"{sc['kind']} [{phase}]: {fail[1]} [{sc}]")
    return part


# ---------------------------------------------------------------------------------------------
# family (R): re-resolution -- edit the loaded database, refresh(), compare with the model of the edited description
# ---------------------------------------------------------------------------------------------
# Database.refresh() is the documented way to make in-memory changes effective.  For every base configuration every single
# edit of a small menu is applied to the LOADED objects:  remove a target / give a target another ID / give a dormant object
# the ID X / move a target into another layer (document fragment).  After refresh() the probe reference must be bound as the
# reference model says for the EDITED description (in particular: fail if X no longer exists where it is looked up) and as a
# database freshly loaded from the edited description; after undoing the edit and refreshing again it must be back.
R_KINDS_QUICK = ["param/DOP-REF", "table-key/TABLE-ROW-REF"]
R_KINDS = ["param/DOP-REF", "service/REQUEST-REF", "table-key/TABLE-ROW-REF", "mux-case/STRUCTURE-REF", "service/FUNCT-CLASS-REF",
           "env-data-desc/ENV-DATA-REF", "table-struct/TABLE-KEY-REF", "diag-comms/DIAG-COMM-REF"]
# (not TABLE-REF: the rows of a TABLE refer back to the table's ID, an ID edit of the table alone would leave the description
# inconsistent)


def find_holder(root: Any, marker: str) -> Optional[Tuple[Any, int, Any, Tuple[Any, ...]]]:
    """locate the object with LONG-NAME == marker below a raw layer: -> (containing list, index, object, attribute path)"""
    import dataclasses
    seen = set()
    found: List[Tuple[Any, int, Any, Tuple[Any, ...]]] = []

    def walk(o: Any, path: Tuple[Any, ...], depth: int) -> None:
        if depth > 8 or id(o) in seen:
            return
        seen.add(id(o))
        if isinstance(o, list):
            for i, x in enumerate(o):
                if getattr(x, "long_name", None) == marker and hasattr(x, "odx_id"):
                    found.append((o, i, x, path))
            for i, x in enumerate(o):
                walk(x, path + (i,), depth + 1)
        elif dataclasses.is_dataclass(o) and not isinstance(o, type):
            for f in dataclasses.fields(o):
                v = getattr(o, f.name, None)
                if isinstance(v, list) or (dataclasses.is_dataclass(v) and not isinstance(v, type)):
                    walk(v, path + (f.name,), depth + 1)
    walk(root, (), 0)
    # the defining collection is the one closest to the layer (an ENV-DATA-DESC also lists its resolved ENV-DATAs in a field)
    return min(found, key=lambda h: len(h[3])) if found else None


def follow(root: Any, path: Tuple[Any, ...]) -> Any:
    o = root
    for step in path:
        if isinstance(step, int):
            return None  # nested targets (table rows, parameters, DTCs) are not moved
        o = getattr(o, step, None)
        if o is None:
            return None
    return o if isinstance(o, list) else None


def r_edits(sc: Dict[str, Any]) -> List[Dict[str, Any]]:
    defs, dormant = sc["defs"], sc.get("dormant", [])
    free = [l for l in LOCS if l not in defs and l not in dormant]
    out: List[Dict[str, Any]] = []
    for l in defs:
        out.append({"op": "remove", "loc": l})
        out.append({"op": "id-away", "loc": l})
        for m in free:
            out.append({"op": "move", "loc": l, "to": m})
    for l in dormant:
        out.append({"op": "id-to", "loc": l})
    return out


def r_edited_sc(sc: Dict[str, Any], ed: Dict[str, Any]) -> Dict[str, Any]:
    defs, dormant = list(sc["defs"]), list(sc.get("dormant", []))
    op, l = ed["op"], ed["loc"]
    if op == "remove":
        defs.remove(l)
    elif op == "id-away":
        defs.remove(l)
        dormant.append(l)
    elif op == "id-to":
        dormant.remove(l)
        defs.append(l)
    elif op == "move":
        defs.remove(l)
        defs.append(ed["to"])
    return dict(sc, defs=[x for x in LOCS if x in defs], dormant=[x for x in LOCS if x in dormant])


def r_apply(db: Any, ed: Dict[str, Any]) -> Optional[Callable[[], None]]:
    """apply the edit to the loaded objects; -> undo function (None: the edit is not applicable to this kind of target)"""
    from odxtools.odxlink import OdxLinkId
    layer = db.diag_layers[ed["loc"]]
    h = find_holder(layer.diag_layer_raw, "T@" + ed["loc"])
    if h is None:
        raise KeyError("target object of layer %s not found" % ed["loc"])
    lst, idx, obj, path = h
    op = ed["op"]
    old_id, old_ln = obj.odx_id, obj.long_name
    if op == "remove":
        lst.pop(idx)
        return lambda: lst.insert(idx, obj)
    if op in ("id-away", "id-to"):
        obj.odx_id = OdxLinkId(X_ID if op == "id-to" else X_ID + "_dormant", old_id.doc_fragments)

        def undo_id() -> None:
            obj.odx_id = old_id
        return undo_id
    dest_layer = db.diag_layers[ed["to"]]
    dest = follow(dest_layer.diag_layer_raw, path)
    if dest is None:
        return None
    lst.pop(idx)
    obj.odx_id = OdxLinkId(old_id.local_id, dest_layer.odx_id.doc_fragments)
    obj.long_name = "T@" + ed["to"]
    dest.append(obj)

    def undo_move() -> None:
        dest.pop(len(dest) - 1)
        obj.odx_id, obj.long_name = old_id, old_ln
        lst.insert(idx, obj)
    return undo_move


def r_refresh(db: Any) -> Optional[BaseException]:
    import odxtools.exceptions as oe
    old = oe.strict_mode
    oe.strict_mode = True
    try:
        db.refresh()
        return None
    except Exception as e:  # noqa: BLE001
        return e
    finally:
        oe.strict_mode = old


def r_key(sc: Dict[str, Any], ed: Dict[str, Any], phase: str, mode: str, expected: Tuple[str, str], got: Any) -> str:
    exp = loc_class(expected[1]) if expected[0] == "BIND" else "error"
    return f"C10/refresh/{ed['op']}{phase}/{sc['form']}/{mode}/expected={exp}/bound={loc_class(got)}"


def run_r_config(sc: Dict[str, Any], cache: Optional[Dict[Any, Any]] = None, only: Optional[List[Dict[str, Any]]] = None
                 ) -> List[Tuple[Dict[str, Any], str, Tuple[str, str], Optional[Tuple[str, str]], str, List[Dict[str, Any]]]]:
    """-> [(edit, phase, expected, failure, observed, edits applied to this database object so far incl. this one)]
    All edits of the menu are applied one after the other (each undone again) to ONE loaded database -- state that survives a
    refresh() is exactly what this phase is about; after a failure the next edit starts from a fresh load.
    only: replay exactly this edit sequence."""
    cache = {} if cache is None else cache
    kind = KIND[sc["kind"]]

    def fresh(sc2: Dict[str, Any]) -> Tuple[Tuple[str, str], str]:
        k = (sc2["kind"], sc2["form"], tuple(sc2["defs"]), tuple(sc2.get("dormant", [])), tuple(sc2["imports"]))
        if k not in cache:
            exp, _, obs = run_id_scenario(sc2)
            cache[k] = (exp, obs)
        return cache[k]

    def look(db: Any, err: Optional[BaseException]) -> str:
        if err is not None:
            return "raised:" + type(err).__name__
        try:
            return "bound:" + str(marker_of(kind.observe(db.diag_layers["LR"])))
        except Exception as e:  # noqa: BLE001
            return f"bound:<unobservable: {type(e).__name__}: {e}>"

    results: List[Tuple[Dict[str, Any], str, Tuple[str, str], Optional[Tuple[str, str]], str, List[Dict[str, Any]]]] = []
    base_exp, base_obs = fresh(sc)
    db: Any = None
    history: List[Dict[str, Any]] = []
    for ed in (only if only else r_edits(sc)):
        if db is None:
            history = []
            db, err0 = try_load(id_world(sc)[0])
            if db is None:
                # the base description does not load (its probe is dangling): edit the objects of a loadable twin in which
                # the probe is fragment-relative, then point the probe where this configuration wants it -- not possible
                # without touching private state, so such base configurations are only used through their edited partners
                return results
        undo = r_apply(db, ed)
        if undo is None:
            continue
        history.append(ed)
        sc2 = r_edited_sc(sc, ed)
        exp, fresh_obs = fresh(sc2)
        err = r_refresh(db)
        obs = look(db, err)
        fail = judge(exp, err is None, observed_marker(obs), err)
        if fail is None and exp[0] != "DONTCARE" and obs.split(":")[0] != fresh_obs.split(":")[0]:
            fail = ("differs-from-fresh-load", f"after the edit and refresh(): {obs}; a database loaded from the edited description: {fresh_obs}")
        results.append((ed, "", exp, fail, obs, list(history)))
        undo()
        err = r_refresh(db)
        obs = look(db, err)
        fail = judge(base_exp, err is None, observed_marker(obs), err)
        results.append((ed, "/undone", base_exp, fail, obs, list(history)))
        if err is not None or fail is not None or results[-2][3] is not None:
            db = None
    return results


def r_configs(quick: bool) -> List[Dict[str, Any]]:
    out = []
    for kind in (R_KINDS_QUICK if quick else R_KINDS):
        for form in FORMS:
            for imps, s_first in (([], False), (["LR"], False)) + (() if quick else ((["LS"], True),)):
                for defs in subsets_of(LOCS):
                    free = [l for l in LOCS if l not in defs]
                    for dormant in [[]] + ([[free[0]]] if quick and free else [[l] for l in free]):
                        out.append({"kind": kind, "form": form, "defs": defs, "dormant": dormant, "imports": imps, "s_first": s_first,
                                    "cb_first": False, "filler": True})
    return out


def r_unit(scs: List[Dict[str, Any]]) -> Part:
    try:
        return _r_unit(scs)
    finally:
        cleanup_scratch()


def _r_unit(scs: List[Dict[str, Any]]) -> Part:
    part = Part()
    cache: Dict[Any, Any] = {}
    for sc in scs:
        part.count("refresh_configurations")
        for ed, phase, expected, fail, observed, history in run_r_config(sc, cache):
            part.count("evaluations")
            part.count("refresh_checks")
            part.count("expect_" + expected[0].lower())
            part.add("refresh_outcome_classes", (ed["op"], phase, expected[0], observed.split(":")[0]))
            part.add("nontrivial", digest((sc["kind"], sc["form"], sc["defs"], sc["dormant"], sc["imports"], ed, phase, expected[0],
                                           observed.split(":")[0])))
            if fail is not None:
                part.violation(r_key(sc, ed, phase, fail[0], expected, observed_marker(observed)), {"family": "R", "sc": sc, "edits": history},
                               f"{sc['kind']}: edit {ed} then refresh(){' then undo and refresh()' if phase else ''}: {fail[1]} [{describe(sc)}, "
                               f"dormant object in {sc['dormant'] or 'no layer'}]")
    return part


# ---------------------------------------------------------------------------------------------
# family (L): the link database of a loaded database as public API (Database.odxlinks.resolve / resolve_lenient,
# OdxLinkRef.from_et, OdxLinkId)
# ---------------------------------------------------------------------------------------------
# resolve_lenient() has no caller inside the library; it is the documented lookup for references that may stay
# unresolved.  Same fragment order as resolve(), "unresolved -> None" instead of an error, a wrong-kind object is an
# assertion failure in strict mode.  The references are parsed from XML elements by OdxLinkRef.from_et with the referring
# layer's fragments, in every spelling.
L_TARGETS: Dict[str, Tuple[Callable[..., Dict[str, Any]], Callable[..., Dict[str, Any]], List[str], str]] = {
    # name -> (target builder, wrong-kind builder, accepted kind tags, odxtools class expected by a typed lookup)
    "dop": (T_dop, T_struct, ["dop"], "DataObjectProperty"),
    "request": (T_msg("requests"), T_msg("posresps"), ["requests"], "Request"),
}


def l_scenarios() -> List[Dict[str, Any]]:
    out = []
    for t in L_TARGETS:
        for defs in subsets_of(LOCS):
            for wrong in ([False, True] if "LR" not in defs else [False]):
                for imps in ([], ["LR"]):
                    out.append({"target": t, "defs": defs, "wrong": wrong, "imports": imps})
    return out


def l_world(sc: Dict[str, Any]) -> Dict[str, Any]:
    tgt, wrong, _, _ = L_TARGETS[sc["target"]]
    L = {n: new_layer(n, "ECU-SHARED-DATA" if n == "LE" else "BASE-VARIANT") for n in LOCS}
    for loc in sc["defs"]:
        add(L[loc], tgt(loc, X_ID, "T@" + loc, "t_X"))
    if sc["wrong"]:
        add(L["LR"], wrong("LR", X_ID, "W@LR", "w_X"))
    for imp in sc["imports"]:
        L[imp]["imports"] = [copy.deepcopy(IMPORT_REF)]
    return {"containers": [{"sn": "CA", "id": "CID.CA", "m": "container:CA", "layers": [L["LR"], L["LS"]]},
                           {"sn": "CB", "id": "CID.CB", "m": "container:CB", "layers": [L["LO"]]},
                           {"sn": "CS", "id": "CID.CS", "m": "container:CS", "layers": [L["LE"]]}]}


def run_l_scenario(sc: Dict[str, Any]) -> List[Tuple[str, str, str, str, Optional[str]]]:
    """-> [(form, call, expected, observed, failure mode or None)]"""
    import importlib
    from xml.etree import ElementTree
    import odxtools.exceptions as oe
    from odxtools.odxlink import OdxLinkId, OdxLinkRef
    world = l_world(sc)
    model = reflinks.Model(world)
    _, _, accept, clsname = L_TARGETS[sc["target"]]
    cls = getattr(importlib.import_module({"DataObjectProperty": "odxtools.dataobjectproperty", "Request": "odxtools.request"}[clsname]), clsname)
    out: List[Tuple[str, str, str, str, Optional[str]]] = []
    db, err = try_load(world)
    if db is None:
        return [("-", "load", "loads", "raised:" + type(err).__name__, "world-does-not-load")]
    frags = db.diag_layers["LR"].odx_id.doc_fragments
    old = oe.strict_mode
    oe.strict_mode = True
    try:
        for form, doc in list(FORMS.items()) + list(MALFORMED_FORMS.items()):
            attrs: Dict[str, str] = {}
            ref: Dict[str, Any] = {"ref": X_ID}
            if doc == "NO-ID-REF":
                ref = {"ref": None}
            else:
                attrs["ID-REF"] = X_ID
                if doc is not None:
                    ref["doc"] = doc
                    if doc[0] is not None:
                        attrs["DOCREF"] = doc[0]
                    if doc[1] is not None:
                        attrs["DOCTYPE"] = doc[1]
            el = ElementTree.Element("SOME-REF", attrs)
            exp_parse = model.idref(("layer", "LR"), ref, with_imports=False, dontcares=False)
            malformed = form in MALFORMED_FORMS and form != "docref-unknown-doctype"
            try:
                r = OdxLinkRef.from_et(el, frags)
                parsed = "parsed"
            except Exception as e:  # noqa: BLE001
                r = None
                parsed = "raised:" + type(e).__name__
            if form in MALFORMED_FORMS:
                want = "DONTCARE" if exp_parse[0] == "DONTCARE" else "raises"
                bad = None if (want == "DONTCARE" or parsed.startswith("raised")) else "malformed-reference-accepted"
                out.append((form, "from_et", want, parsed, bad))
                continue
            if r is None:
                out.append((form, "from_et", "parsed", parsed, "well-formed-reference-rejected"))
                continue
            for typed in (False, True):
                exp = model.lookup(("layer", "LR"), ref, accept if typed else None)
                for call in ("resolve", "resolve_lenient"):
                    try:
                        o = getattr(db.odxlinks, call)(r, cls) if typed else getattr(db.odxlinks, call)(r)
                        obs = "none" if o is None else "object:" + str(marker_of(o))
                    except Exception as e:  # noqa: BLE001
                        obs = "raised:" + type(e).__name__
                    if exp[0] == "DONTCARE":
                        want, bad = "DONTCARE", None
                    elif exp[0] == "BIND":
                        want = "object:" + exp[1]
                        bad = None if obs == want else "wrong-result"
                    elif exp[0] == "WRONGKIND":
                        want = "raises (object of another kind)"
                        bad = None if obs.startswith("raised") else "wrong-kind-object-accepted"
                    else:
                        want = "raises" if call == "resolve" else "none"
                        bad = None if (obs.startswith("raised") if call == "resolve" else obs == "none") else \
                            ("bound-instead-of-error" if call == "resolve" else "not-none-for-unresolvable")
                    out.append((form, call + ("-typed" if typed else ""), want, obs, bad))
        # OdxLinkId: two IDs are the same iff local ID and document fragments agree (same local ID in two layers: different)
        objs = []
        for loc in sc["defs"]:
            h = find_holder(db.diag_layers[loc].diag_layer_raw, "T@" + loc)
            if h is not None:
                objs.append((loc, h[2]))
        for la, a in objs:
            same = OdxLinkId(a.odx_id.local_id, list(a.odx_id.doc_fragments))
            ok = (a.odx_id == same and hash(a.odx_id) == hash(same) and a.odx_id != "X" and X_ID in str(a.odx_id)
                  and OdxLinkRef.from_id(a.odx_id).ref_docs == a.odx_id.doc_fragments)
            out.append(("-", "odxlinkid-equal", "equal", "equal" if ok else "differs", None if ok else "odxlinkid-equality"))
            for lb, b in objs:
                if la < lb:
                    ne = a.odx_id != b.odx_id
                    out.append(("-", "odxlinkid-distinct", "distinct", "distinct" if ne else "equal", None if ne else "odxlinkid-equality"))
        el = ElementTree.Element("DATA-OBJECT-PROP")
        none_id = OdxLinkId.from_et(el, frags)
        out.append(("-", "odxlinkid-from-et-without-id", "none", "none" if none_id is None else "object",
                    None if none_id is None else "odxlinkid-without-id"))
    finally:
        oe.strict_mode = old
    return out


def l_unit(scs: List[Dict[str, Any]]) -> Part:
    try:
        part = Part()
        for sc in scs:
            for form, call, want, obs, bad in run_l_scenario(sc):
                part.count("evaluations")
                part.count("link_database_api_checks")
                part.add("api_outcome_classes", (call, want.split(":")[0], obs.split(":")[0]))
                part.add("nontrivial", digest((sc["target"], sc["defs"], sc["wrong"], sc["imports"], form, call, want, obs)))
                if bad is not None:
                    part.violation(f"C10/api/{call}/{form}/{bad}", {"family": "L", "sc": sc},
                                   f"{call} for {form}: expected {want}, observed {obs} [{sc}]")
        return part
    finally:
        cleanup_scratch()


# ---------------------------------------------------------------------------------------------
# run / replay
# ---------------------------------------------------------------------------------------------
def chunks(xs: List[Any], n: int) -> List[List[Any]]:
    return [xs[i::n] for i in range(n) if xs[i::n]]


def sweep_stale_scratch() -> None:
    """remove scratch directories of C10 worker processes which no longer exist (workers that were terminated in mid-unit)"""
    import glob
    for d in glob.glob("/dev/shm/odxverif_c10_*") + glob.glob(os.path.join(tempfile.gettempdir(), "odxverif_c10_*")):
        pid = d.rsplit("_", 1)[1]
        if pid.isdigit() and not os.path.isdir("/proc/" + pid):
            shutil.rmtree(d, ignore_errors=True)


def run(ctx: Ctx) -> None:
    try:
        _run(ctx)
    finally:
        cleanup_scratch()
        sweep_stale_scratch()


def _run(ctx: Ctx) -> None:
    kinds = [k.name for k in KINDS]
    cells = id_cells(ctx.quick)
    dscs = d_scenarios()
    sscs = s_scenarios(ctx.quick)
    ctx.bounds = {"odxlink": {"kinds": kinds, "forms": list(FORMS), "definition_locations": LOCS, "importers": IMPORTERS,
                              "cells": len(cells), "scenarios": len(cells) * len(kinds)},
                  "layers_and_comparam_documents": {"kinds": ["parent-ref", "import-ref"] + D_DOC_KINDS, "scenarios": len(dscs)},
                  "snref": {"kinds": list(S_KINDS) + ["table-struct/TABLE-KEY-SNREF", "table-key/TABLE-ROW-SNREF",
                                                      "protocol/PROT-STACK-SNREF", "service/PROTOCOL-SNREF"],
                            "definition_locations": S_LOCS, "scenarios": len(sscs), "retarget_targets": RETARGETS_QUICK if ctx.quick else RETARGETS}}
    ctx.rule = ("one database per scenario; non-trivial = distinct (reference kind, addressing form / owner, definition set, import "
                "set, situation, phase, expected verdict, observed class) combinations")
    ctx.assumptions = ["layer SHORT-NAMEs are unique in the database (ISO 22901-1 7.3.2.1)",
                       "any exception raised by the loader / retarget_snrefs in strict mode counts as 'raises an error'",
                       "DON'T-CARE (counted, not judged): duplicate IDs inside one document fragment; DOCREF to an importing layer "
                       "for an ID it only imports; IDs imported by an ancestor; SNREF to a name offered by an imported layer; same "
                       "short name in several DOP-BASE collections when one of them is inherited"]
    pmap(ctx, d_unit, chunks(dscs, 32))
    lscs = l_scenarios()
    ctx.bounds["link_database_api"] = {"scenarios": len(lscs), "forms": list(FORMS) + list(MALFORMED_FORMS),
                                       "calls": ["OdxLinkRef.from_et", "resolve", "resolve_lenient", "typed and untyped", "OdxLinkId"]}
    pmap(ctx, l_unit, chunks(lscs, 16))
    ac = ctx.sets.get("api_outcome_classes", set())
    ctx.guard("resolve_lenient returned None for unresolvable references, objects for resolvable ones and raised for wrong kinds",
              ("resolve_lenient", "none", "none") in ac and ("resolve_lenient", "object", "object") in ac and
              ("resolve_lenient-typed", "raises (object of another kind)", "raised") in ac)
    pmap(ctx, s_unit, chunks(sscs, 96))
    pmap(ctx, id_unit, [(c, kinds) for c in chunks(cells, 96)])
    rcfg = r_configs(ctx.quick)
    ctx.bounds["refresh"] = {"kinds": R_KINDS_QUICK if ctx.quick else R_KINDS, "forms": list(FORMS),
                             "edits": ["remove", "id-away", "id-to", "move"], "configurations": len(rcfg)}
    # units keep (kind, form, imports) together so that the fresh loads of the edited descriptions are shared
    groups: Dict[Any, List[Dict[str, Any]]] = {}
    for c in rcfg:
        groups.setdefault((c["kind"], c["form"], tuple(c["imports"]), len(c["defs"]) % 2), []).append(c)
    pmap(ctx, r_unit, list(groups.values()))
    rr = ctx.sets.get("refresh_outcome_classes", set())
    ctx.guard("refresh after removing a target fails where it must and rebinds where another definition takes over",
              ("remove", "", "FAIL", "raised") in rr and ("remove", "", "BIND", "bound") in rr)
    ctx.guard("refresh after a move / an ID change binds to the new object", ("move", "", "BIND", "bound") in rr and ("id-to", "", "BIND", "bound") in rr)
    oc = ctx.sets.get("outcome_classes", set())
    ctx.guard("references that must bind and do bind were seen", ("BIND", "bound") in oc)
    ctx.guard("references that must fail and do fail were seen", ("FAIL", "raised") in oc)
    ctx.guard("don't-care scenarios were seen", any(o[0] == "DONTCARE" for o in oc))
    wk = ctx.sets.get("wrong_kind_outcome_classes", set())
    ctx.guard("wrong-kind objects in the nearest fragment make typed references fail; with DOCREF elsewhere they still bind",
              ("FAIL", "raised") in wk and ("BIND", "bound") in wk)
    roc = ctx.sets.get("retarget_outcome_classes", set())
    ctx.guard("retargeting rebinds and also fails where it must", ("retarget", "BIND", "bound") in roc and ("retarget", "FAIL", "raised") in roc)
    for sc in ({"kind": "param/DOP-REF", "form": "no-docref", "defs": ["LR", "LS", "LO", "LE"], "imports": ["LS"], "s_first": True, "cb_first": False},
               {"kind": "table-key/TABLE-ROW-REF", "form": "docref-other-layer", "defs": ["LR", "LO"], "imports": [], "s_first": False, "cb_first": False}):
        exp, _, obs = run_id_scenario(sc)
        ctx.sample({"scenario": sc, "expected": list(exp), "observed": obs})
    sc2 = {"fam": "S", "kind": "param/DOP-SNREF", "owner": "LP", "defs": ["LR", "LP", "LG"], "ni": [], "import": False}
    ctx.sample({"scenario": sc2, "phases": [[ph, list(e), o] for ph, e, _, o in run_s_scenario(sc2)]})
    sc3 = {"kind": "parent-ref", "rtype": "ECU-VARIANT", "form": "docref-other-container", "defs": ["LS", "LO"], "s_first": False, "imports": False}
    exp, _, obs = run_d_scenario(sc3)
    ctx.sample({"scenario": sc3, "expected": list(exp), "observed": obs})


def replay(case: Any) -> List[Tuple[str, str]]:
    try:
        return _replay(case)
    finally:
        cleanup_scratch()


def _replay(case: Any) -> List[Tuple[str, str]]:
    out: List[Tuple[str, str]] = []
    fam = case.get("family")
    sc = case["sc"]
    if fam == "I":
        expected, fail, observed = run_id_scenario(sc)
        if fail is not None:
            out.append((id_key(sc, fail[0], case.get("scope", "kind"), expected, observed_marker(observed)),
                        f"{sc['kind']}: {fail[1]} [{describe(sc)}]"))
    elif fam == "D":
        expected, fail, observed = run_d_scenario(sc)
        if fail is not None:
            out.append((d_key(sc, fail[0], expected, observed_marker(observed)), f"{sc['kind']}: {fail[1]} [{sc}]"))
    elif fam == "L":
        for form, call, want, obs, bad in run_l_scenario(sc):
            if bad is not None:
                out.append((f"C10/api/{call}/{form}/{bad}", f"{call} for {form}: expected {want}, observed {obs}"))
    elif fam == "R":
        for ed, phase, expected, fail, observed, _ in run_r_config(sc, None, case["edits"]):
            if fail is not None:
                out.append((r_key(sc, ed, phase, fail[0], expected, observed_marker(observed)), f"{sc['kind']}: edit {ed}{phase}: {fail[1]}"))
    elif fam == "S":
        for phase, expected, fail, observed in run_s_scenario(sc):
            if fail is not None:
                out.append((s_key(sc, phase, fail[0], expected, observed_marker(observed)), f"{sc['kind']} [{phase}]: {fail[1]} [{sc}]"))
    return out


def case_files(case: Any) -> List[Tuple[str, str]]:
    """[(file name, ODX XML)] of a recorded case, for a human who wants to look at the database:
    /venv/bin/python -c "import json,sys; sys.path.insert(0,'/verif'); from checks import c10;
    [print(n, x, sep='\\n') for n, x in c10.case_files(json.load(open(sys.argv[1]))['case'])]" replays/C10/<file>.json"""
    sc = case["sc"]
    fam = case.get("family")
    if fam == "L":
        world = l_world(sc)
    elif fam in ("I", "R"):
        world = id_world(sc)[0]
    elif fam == "D":
        world = d_world(sc)[0]
    else:
        world = (s_world if sc["fam"] == "S" else s2_world)(sc)[0]
    return emit_links.world_files(world)
