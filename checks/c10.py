"""C10 -- every reference resolves to the object it names, or loading fails.

Bounded exhaustive exploration of a scenario space; one small database per scenario, emitted as ODX XML by
odxmodel.emit_links and loaded through the public loader; the expectation comes from odxmodel.reflinks (no
odxtools).  Three families of scenarios:

 (I)  ODXLINK: reference kind x addressing form x definition set x import set x document orders.
      Template: container CA = {LR (referrer), LS (sibling)}, CB = {LO, LQ (child of LO)}, CS = {LE (ECU-SHARED-DATA)};
      the local ID "X" is defined in every subset of {LR, LS, LO, LE}; every subset of {LR, LS, LO} imports LE.
 (D)  references whose target lives in a comparam document or is a layer (COMPARAM-REF, COMPARAM-SPEC-REF,
      COMPARAM-SUBSET-REF, DATA-OBJECT-PROP-REF of a COMPARAM, PARENT-REF, IMPORT-REF).
 (S)  SNREF: reference kind x owner (child/parent layer) x definition set x NOT-INHERITED x special situations
      (ambiguous, wrong type), each followed by retarget_snrefs() to every layer of the hierarchy.

Oracle: the resolved attribute carries the LONG-NAME marker predicted by reflinks; where reflinks says FAIL,
loading in strict mode raises; DON'T-CARE outcomes are counted, never judged.
"""
from __future__ import annotations

import copy
import itertools
import os
from typing import Any, Callable, Dict, List, Optional, Tuple

from mcx.core import Ctx, Part, digest, pmap
from odxmodel import emit, emit_links, reflinks

PROPERTY = "C10"
LEVEL = "exploration"

X_ID = "X"  # the colliding local ID


# ---------------------------------------------------------------------------------------------
# loading worlds through the real loader
# ---------------------------------------------------------------------------------------------
def load_world(world: Dict[str, Any]) -> Any:
    from odxtools.database import Database
    d = Database()
    sd = emit.scratch_dir()
    paths = emit_links.write_world(world, sd)
    try:
        for p in paths:
            d.add_odx_file(p)
    finally:
        for p in paths:
            try:
                os.unlink(p)
            except OSError:
                pass
    d.refresh()
    return d


def try_load(world: Dict[str, Any]) -> Tuple[Any, Optional[BaseException]]:
    import odxtools.exceptions as oe
    old = oe.strict_mode
    oe.strict_mode = True
    try:
        return load_world(world), None
    except Exception as e:  # noqa: BLE001 - the property: "raises an error in strict mode"
        return None, e
    finally:
        oe.strict_mode = old


def marker_of(o: Any) -> Any:
    if o is None:
        return None
    return getattr(o, "long_name", "<no long_name: %s>" % type(o).__name__)


# ---------------------------------------------------------------------------------------------
# world building blocks
# ---------------------------------------------------------------------------------------------
def new_layer(sn: str, typ: str) -> Dict[str, Any]:
    return {"sn": sn, "type": typ, "id": "LID." + sn, "m": "layer:" + sn}


def add(layer: Dict[str, Any], extra: Dict[str, List[Any]]) -> None:
    for k, v in extra.items():
        if isinstance(v, list):
            layer.setdefault(k, []).extend(v)
        else:
            layer[k] = v


def aux_dop(L: str, sn: str) -> Dict[str, Any]:
    return {"k": "dop", "sn": sn, "id": f"{L}.{sn}", "m": f"{L}/{sn}"}


def lref(L: str, sn: str) -> Dict[str, Any]:
    """plain fragment-relative reference to an auxiliary object of layer L"""
    return {"ref": f"{L}.{sn}"}


CC = {"t": "CODED-CONST", "sn": "sid", "value": 0x22}


# -- targets: objects of a given type with ID X / marker m placed into layer L --------------------------------
def T_dop(L: str, i: str, m: str, sn: str) -> Dict[str, Any]:
    return {"ddds": [{"k": "dop", "sn": sn, "id": i, "m": m}]}


def T_struct(L: str, i: str, m: str, sn: str) -> Dict[str, Any]:
    return {"ddds": [{"k": "struct", "sn": sn, "id": i, "m": m, "params": []}]}


def T_table(L: str, i: str, m: str, sn: str) -> Dict[str, Any]:
    return {"ddds": [aux_dop(L, "t_kd"),
                     {"k": "table", "sn": sn, "id": i, "m": m, "key_dop": lref(L, "t_kd"),
                      "rows": [{"sn": "t_r1", "id": f"{L}.t_r1", "m": f"{L}/t_r1", "key": 1, "dop": lref(L, "t_kd")}]}]}


def T_row(L: str, i: str, m: str, sn: str) -> Dict[str, Any]:
    return {"ddds": [aux_dop(L, "t_kd"),
                     {"k": "table", "sn": "t_tab", "id": f"{L}.t_tab", "m": f"{L}/t_tab", "key_dop": lref(L, "t_kd"),
                      "rows": [{"sn": sn, "id": i, "m": m, "key": 1, "dop": lref(L, "t_kd")}]}]}


def T_tablekey(L: str, i: str, m: str, sn: str) -> Dict[str, Any]:
    t = T_row(L, f"{L}.t_row", f"{L}/t_row", "t_row")
    t["requests"] = [{"sn": "t_RQ", "id": f"{L}.t_RQ", "m": f"{L}/t_RQ",
                      "params": [CC, {"t": "TABLE-KEY", "sn": sn, "id": i, "m": m, "table": lref(L, "t_tab")}]}]
    return t


def T_lengthkey(L: str, i: str, m: str, sn: str) -> Dict[str, Any]:
    return {"ddds": [aux_dop(L, "t_ld")],
            "requests": [{"sn": "t_RQ", "id": f"{L}.t_RQ", "m": f"{L}/t_RQ",
                          "params": [CC, {"t": "LENGTH-KEY", "sn": sn, "id": i, "m": m, "dop": lref(L, "t_ld")}]}]}


def T_envdata(L: str, i: str, m: str, sn: str) -> Dict[str, Any]:
    return {"ddds": [{"k": "envdata", "sn": sn, "id": i, "m": m, "params": []}]}


def T_envdesc(L: str, i: str, m: str, sn: str) -> Dict[str, Any]:
    return {"ddds": [{"k": "envdata", "sn": "t_ed", "id": f"{L}.t_ed", "m": f"{L}/t_ed", "params": []},
                     {"k": "envdesc", "sn": sn, "id": i, "m": m, "envdatas": [lref(L, "t_ed")]}]}


def T_msg(key: str) -> Callable[[str, str, str, str], Dict[str, Any]]:
    def f(L: str, i: str, m: str, sn: str) -> Dict[str, Any]:
        return {key: [{"sn": sn, "id": i, "m": m, "params": [CC]}]}
    return f


def T_service(L: str, i: str, m: str, sn: str) -> Dict[str, Any]:
    return {"requests": [{"sn": "t_SRQ", "id": f"{L}.t_SRQ", "m": f"{L}/t_SRQ", "params": [CC]}],
            "comms": [{"k": "service", "sn": sn, "id": i, "m": m, "request": lref(L, "t_SRQ")}]}


def T_fclass(L: str, i: str, m: str, sn: str) -> Dict[str, Any]:
    return {"fclasses": [{"sn": sn, "id": i, "m": m}]}


def T_audience(L: str, i: str, m: str, sn: str) -> Dict[str, Any]:
    return {"audiences": [{"sn": sn, "id": i, "m": m}]}


def T_unit(L: str, i: str, m: str, sn: str) -> Dict[str, Any]:
    return {"units": [{"sn": sn, "id": i, "m": m}]}


def T_physdim(L: str, i: str, m: str, sn: str) -> Dict[str, Any]:
    return {"physdims": [{"sn": sn, "id": i, "m": m}]}


def T_dtcdop(L: str, i: str, m: str, sn: str) -> Dict[str, Any]:
    return {"ddds": [{"k": "dtcdop", "sn": sn, "id": i, "m": m, "dtcs": []}]}


def T_dtc(L: str, i: str, m: str, sn: str) -> Dict[str, Any]:
    return {"ddds": [{"k": "dtcdop", "sn": "t_dd", "id": f"{L}.t_dd", "m": f"{L}/t_dd", "dtcs": [{"sn": sn, "id": i, "m": m, "code": 1}]}]}


# -- sources: the referring construct placed into layer L, and how to observe what it was bound to ------------
def raw_ddds(layer: Any) -> Any:
    return layer.diag_layer_raw.diag_data_dictionary_spec


def S_rq(L: str, plist: List[Dict[str, Any]], extra: Optional[Dict[str, Any]] = None) -> Dict[str, Any]:
    out = {"requests": [{"sn": "s_RQ", "id": f"{L}.s_RQ", "m": f"{L}/s_RQ", "params": [CC] + plist}]}
    if extra:
        for k, v in extra.items():
            out.setdefault(k, []).extend(v)
    return out


def rq_param(layer: Any, name: str = "p") -> Any:
    return layer.diag_layer_raw.requests["s_RQ"].parameters[name]


def s_aux_table(L: str, **kw: Any) -> Dict[str, Any]:
    row = {"sn": "s_r1", "id": f"{L}.s_r1", "m": f"{L}/s_r1", "key": 1}
    row.update(kw.pop("row", {"dop": lref(L, "s_ad")}))
    t = {"k": "table", "sn": "s_tab", "id": f"{L}.s_tab", "m": f"{L}/s_tab", "key_dop": lref(L, "s_ad"), "rows": [row]}
    t.update(kw)
    return t


def svc(L: str, **kw: Any) -> Dict[str, Any]:
    s = {"k": "service", "sn": "s_SV", "id": f"{L}.s_SV", "m": f"{L}/s_SV", "request": lref(L, "s_SRQ")}
    s.update(kw)
    out = {"comms": [s]}
    if s["request"] == lref(L, "s_SRQ"):
        out["requests"] = [{"sn": "s_SRQ", "id": f"{L}.s_SRQ", "m": f"{L}/s_SRQ", "params": [CC]}]
    return out


def the_svc(layer: Any) -> Any:
    return layer.diag_layer_raw.diag_comms["s_SV"]


class Kind:

    def __init__(self, name: str, target: Callable[..., Dict[str, Any]], source: Callable[[str, Dict[str, Any]], Dict[str, Any]],
                 observe: Callable[[Any], Any], core: bool = False):
        self.name = name
        self.target = target
        self.source = source
        self.observe = observe
        self.core = core


def field_kind(k: str, extra: Optional[Callable[[str], Dict[str, Any]]] = None) -> Callable[[str, Dict[str, Any]], Dict[str, Any]]:
    def src(L: str, r: Dict[str, Any]) -> Dict[str, Any]:
        f = {"k": k, "sn": "s_F", "id": f"{L}.s_F", "m": f"{L}/s_F", "of": r}
        if k == "dlfield":
            f["count_dop"] = lref(L, "s_ad")
        if k == "emfield":
            f["end_dop"] = lref(L, "s_ad")
        return {"ddds": [aux_dop(L, "s_ad"), f]}
    return src


def field_obj(layer: Any) -> Any:
    d = raw_ddds(layer)
    for coll in (d.static_fields, d.dynamic_length_fields, d.dynamic_endmarker_fields, d.end_of_pdu_fields):
        for f in coll:
            if f.short_name == "s_F":
                return f
    raise KeyError("s_F")


def _mux(L: str, **kw: Any) -> Dict[str, Any]:
    m = {"k": "mux", "sn": "s_MX", "id": f"{L}.s_MX", "m": f"{L}/s_MX", "key_dop": lref(L, "s_ad"),
         "cases": [{"sn": "c1", "m": f"{L}/s_MX/c1", "struct": lref(L, "s_as"), "lo": 1, "hi": 1}],
         "default": {"sn": "dflt", "m": f"{L}/s_MX/dflt", "struct": lref(L, "s_as")}}
    m.update(kw)
    return {"ddds": [aux_dop(L, "s_ad"), {"k": "struct", "sn": "s_as", "id": f"{L}.s_as", "m": f"{L}/s_as", "params": []}, m]}


def _job(L: str, **kw: Any) -> Dict[str, Any]:
    j = {"k": "job", "sn": "s_JB", "id": f"{L}.s_JB", "m": f"{L}/s_JB"}
    j.update(kw)
    return {"ddds": [aux_dop(L, "s_ad")], "comms": [j]}


KINDS: List[Kind] = [
    Kind("param/DOP-REF", T_dop, lambda L, r: S_rq(L, [{"t": "VALUE", "sn": "p", "m": f"{L}/p", "dop": r}]),
         lambda l: rq_param(l).dop, core=True),
    Kind("struct-param/DOP-REF", T_dop,
         lambda L, r: {"ddds": [{"k": "struct", "sn": "s_ST", "id": f"{L}.s_ST", "m": f"{L}/s_ST",
                                 "params": [{"t": "VALUE", "sn": "p", "m": f"{L}/p", "dop": r}]}]},
         lambda l: raw_ddds(l).structures["s_ST"].parameters["p"].dop),
    Kind("length-key/DOP-REF", T_dop, lambda L, r: S_rq(L, [{"t": "LENGTH-KEY", "sn": "p", "id": f"{L}.s_lk", "m": f"{L}/p", "dop": r}]),
         lambda l: rq_param(l).dop),
    Kind("table-key/TABLE-REF", T_table, lambda L, r: S_rq(L, [{"t": "TABLE-KEY", "sn": "p", "id": f"{L}.s_tk", "m": f"{L}/p", "table": r}]),
         lambda l: rq_param(l).table, core=True),
    Kind("table-key/TABLE-ROW-REF", T_row, lambda L, r: S_rq(L, [{"t": "TABLE-KEY", "sn": "p", "id": f"{L}.s_tk", "m": f"{L}/p", "row": r}]),
         lambda l: rq_param(l).table_row, core=True),
    Kind("table-entry/TABLE-ROW-REF", T_row, lambda L, r: S_rq(L, [{"t": "TABLE-ENTRY", "sn": "p", "m": f"{L}/p", "row": r}]),
         lambda l: rq_param(l).table_row),
    Kind("table-struct/TABLE-KEY-REF", T_tablekey, lambda L, r: S_rq(L, [{"t": "TABLE-STRUCT", "sn": "p", "m": f"{L}/p", "key": r}]),
         lambda l: rq_param(l).table_key, core=True),
    Kind("dop/LENGTH-KEY-REF", T_lengthkey, lambda L, r: {"ddds": [{"k": "dop", "sn": "s_PL", "id": f"{L}.s_PL", "m": f"{L}/s_PL", "plen": r}]},
         lambda l: raw_ddds(l).data_object_props["s_PL"].diag_coded_type.length_key),
    Kind("dop/UNIT-REF", T_unit, lambda L, r: {"ddds": [{"k": "dop", "sn": "s_DU", "id": f"{L}.s_DU", "m": f"{L}/s_DU", "unit": r}]},
         lambda l: raw_ddds(l).data_object_props["s_DU"].unit, core=True),
    Kind("unit/PHYSICAL-DIMENSION-REF", T_physdim, lambda L, r: {"units": [{"sn": "s_U", "id": f"{L}.s_U", "m": f"{L}/s_U", "physdim": r}]},
         lambda l: raw_ddds(l).unit_spec.units["s_U"].physical_dimension),
    Kind("unit-group/UNIT-REF", T_unit, lambda L, r: {"unitgroups": [{"sn": "s_UG", "m": f"{L}/s_UG", "units": [r]}]},
         lambda l: raw_ddds(l).unit_spec.unit_groups["s_UG"].units[0]),
    Kind("mux-case/STRUCTURE-REF", T_struct,
         lambda L, r: _mux(L, cases=[{"sn": "c1", "m": f"{L}/s_MX/c1", "struct": r, "lo": 1, "hi": 1}]),
         lambda l: raw_ddds(l).muxs["s_MX"].cases[0].structure, core=True),
    Kind("mux-default-case/STRUCTURE-REF", T_struct, lambda L, r: _mux(L, default={"sn": "dflt", "m": f"{L}/s_MX/dflt", "struct": r}),
         lambda l: raw_ddds(l).muxs["s_MX"].default_case.structure),
    Kind("mux-switch-key/DATA-OBJECT-PROP-REF", T_dop, lambda L, r: _mux(L, key_dop=r), lambda l: raw_ddds(l).muxs["s_MX"].switch_key.dop),
    Kind("table/KEY-DOP-REF", T_dop, lambda L, r: {"ddds": [aux_dop(L, "s_ad"), s_aux_table(L, key_dop=r)]},
         lambda l: raw_ddds(l).tables["s_tab"].key_dop),
    Kind("table-row/STRUCTURE-REF", T_struct, lambda L, r: {"ddds": [aux_dop(L, "s_ad"), s_aux_table(L, row={"struct": r})]},
         lambda l: raw_ddds(l).tables["s_tab"].table_rows[0].structure, core=True),
    Kind("table-row/DATA-OBJECT-PROP-REF", T_dop, lambda L, r: {"ddds": [aux_dop(L, "s_ad"), s_aux_table(L, row={"dop": r})]},
         lambda l: raw_ddds(l).tables["s_tab"].table_rows[0].dop),
    Kind("table-row/FUNCT-CLASS-REF", T_fclass,
         lambda L, r: {"ddds": [aux_dop(L, "s_ad"), s_aux_table(L, row={"dop": lref(L, "s_ad"), "fclasses": [r]})]},
         lambda l: raw_ddds(l).tables["s_tab"].table_rows[0].functional_classes[0]),
    Kind("table/TABLE-ROW-REF", T_row,
         lambda L, r: {"ddds": [aux_dop(L, "s_ad"), {"k": "table", "sn": "s_tab", "id": f"{L}.s_tab", "m": f"{L}/s_tab",
                                                     "key_dop": lref(L, "s_ad"), "rows": [{"rowref": r}]}]},
         lambda l: raw_ddds(l).tables["s_tab"].table_rows[0]),
    Kind("table-diag-comm-connector/DIAG-COMM-REF", T_service,
         lambda L, r: {"ddds": [aux_dop(L, "s_ad"), s_aux_table(L, connectors=[{"comm": r}])]},
         lambda l: raw_ddds(l).tables["s_tab"].table_diag_comm_connectors[0].diag_comm),
    Kind("static-field/BASIC-STRUCTURE-REF", T_struct, field_kind("sfield"), lambda l: field_obj(l).structure, core=True),
    Kind("dynamic-length-field/BASIC-STRUCTURE-REF", T_struct, field_kind("dlfield"), lambda l: field_obj(l).structure),
    Kind("dynamic-endmarker-field/BASIC-STRUCTURE-REF", T_struct, field_kind("emfield"), lambda l: field_obj(l).structure),
    Kind("end-of-pdu-field/BASIC-STRUCTURE-REF", T_struct, field_kind("eopfield"), lambda l: field_obj(l).structure),
    Kind("end-of-pdu-field/ENV-DATA-DESC-REF", T_envdesc,
         lambda L, r: {"ddds": [{"k": "eopfield", "sn": "s_F", "id": f"{L}.s_F", "m": f"{L}/s_F", "of_env": r}]},
         lambda l: field_obj(l)._env_data_desc),
    Kind("dynamic-length-field/count DATA-OBJECT-PROP-REF", T_dop,
         lambda L, r: {"ddds": [{"k": "struct", "sn": "s_as", "id": f"{L}.s_as", "m": f"{L}/s_as", "params": []},
                                {"k": "dlfield", "sn": "s_F", "id": f"{L}.s_F", "m": f"{L}/s_F", "of": lref(L, "s_as"), "count_dop": r}]},
         lambda l: field_obj(l).determine_number_of_items.dop),
    Kind("dynamic-endmarker-field/DYN-END-DOP-REF", T_dop,
         lambda L, r: {"ddds": [{"k": "struct", "sn": "s_as", "id": f"{L}.s_as", "m": f"{L}/s_as", "params": []},
                                {"k": "emfield", "sn": "s_F", "id": f"{L}.s_F", "m": f"{L}/s_F", "of": lref(L, "s_as"), "end_dop": r}]},
         lambda l: field_obj(l).dyn_end_dop),
    Kind("env-data-desc/ENV-DATA-REF", T_envdata,
         lambda L, r: {"ddds": [{"k": "envdesc", "sn": "s_EDD", "id": f"{L}.s_EDD", "m": f"{L}/s_EDD", "envdatas": [r]}]},
         lambda l: raw_ddds(l).env_data_descs["s_EDD"].env_datas[0], core=True),
    Kind("dtc-dop/LINKED DTC-DOP-REF", T_dtcdop,
         lambda L, r: {"ddds": [{"k": "dtcdop", "sn": "s_DD", "id": f"{L}.s_DD", "m": f"{L}/s_DD", "dtcs": [], "linked": [r]}]},
         lambda l: raw_ddds(l).dtc_dops["s_DD"].linked_dtc_dops_raw[0].dtc_dop),
    Kind("dtc-dop/DTC-REF", T_dtc,
         lambda L, r: {"ddds": [{"k": "dtcdop", "sn": "s_DD", "id": f"{L}.s_DD", "m": f"{L}/s_DD", "dtcs": [{"dtcref": r}]}]},
         lambda l: raw_ddds(l).dtc_dops["s_DD"].dtcs[0]),
    Kind("service/REQUEST-REF", T_msg("requests"), lambda L, r: svc(L, request=r), lambda l: the_svc(l).request, core=True),
    Kind("service/POS-RESPONSE-REF", T_msg("posresps"), lambda L, r: svc(L, pos=[r]), lambda l: the_svc(l).positive_responses[0], core=True),
    Kind("service/NEG-RESPONSE-REF", T_msg("negresps"), lambda L, r: svc(L, neg=[r]), lambda l: the_svc(l).negative_responses[0]),
    Kind("service/FUNCT-CLASS-REF", T_fclass, lambda L, r: svc(L, fclasses=[r]), lambda l: the_svc(l).functional_classes[0], core=True),
    Kind("service/RELATED-DIAG-COMM-REF", T_service, lambda L, r: svc(L, related=[r]), lambda l: the_svc(l).related_diag_comms[0]),
    Kind("service/ENABLED-AUDIENCE-REF", T_audience, lambda L, r: svc(L, audience={"enabled": [r]}),
         lambda l: the_svc(l).audience.enabled_audiences[0]),
    Kind("service/DISABLED-AUDIENCE-REF", T_audience, lambda L, r: svc(L, audience={"disabled": [r]}),
         lambda l: the_svc(l).audience.disabled_audiences[0]),
    Kind("diag-comms/DIAG-COMM-REF", T_service, lambda L, r: {"comms": [{"k": "commref", "ref": r}]},
         lambda l: l.diag_layer_raw.diag_comms[0], core=True),
    Kind("job/FUNCT-CLASS-REF", T_fclass, lambda L, r: _job(L, fclasses=[r]), lambda l: l.diag_layer_raw.diag_comms["s_JB"].functional_classes[0]),
    Kind("job-input-param/DOP-BASE-REF", T_dop, lambda L, r: _job(L, inputs=[{"sn": "ip", "m": f"{L}/ip", "dop": r}]),
         lambda l: l.diag_layer_raw.diag_comms["s_JB"].input_params[0].dop),
    Kind("job-output-param/DOP-BASE-REF", T_dop, lambda L, r: _job(L, outputs=[{"sn": "op", "id": f"{L}.s_op", "m": f"{L}/op", "dop": r}]),
         lambda l: l.diag_layer_raw.diag_comms["s_JB"].output_params[0].dop),
    Kind("job-neg-output-param/DOP-BASE-REF", T_dop, lambda L, r: _job(L, negoutputs=[{"sn": "np", "m": f"{L}/np", "dop": r}]),
         lambda l: l.diag_layer_raw.diag_comms["s_JB"].neg_output_params[0].dop),
]
KIND = {k.name: k for k in KINDS}

# ---------------------------------------------------------------------------------------------
# family (I): ODXLINK scenarios
# ---------------------------------------------------------------------------------------------
LOCS = ["LR", "LS", "LO", "LE"]  # where "X" may be defined
IMPORTERS = ["LR", "LS", "LO"]
FORMS: Dict[str, Optional[Tuple[str, str]]] = {
    "no-docref": None,
    "docref-own-layer": ("LR", "LAYER"),
    "docref-own-container": ("CA", "CONTAINER"),
    "docref-sibling-layer": ("LS", "LAYER"),
    "docref-other-container": ("CB", "CONTAINER"),
    "docref-other-layer": ("LO", "LAYER"),
    "docref-shared-layer": ("LE", "LAYER"),
    "docref-shared-container": ("CS", "CONTAINER"),
    "docref-missing-document": ("NOWHERE", "CONTAINER"),
    "docref-wrong-doctype": ("LR", "CONTAINER"),
}
IMPORT_REF = {"ref": "LID.LE", "doc": ("CS", "CONTAINER")}


def id_world(sc: Dict[str, Any]) -> Tuple[Dict[str, Any], Dict[str, Any]]:
    """sc: {"kind", "form", "defs": [loc..], "imports": [layer..], "s_first": bool, "cb_first": bool, "rtype": layer type}
    -> (world, probe)"""
    kind = KIND[sc["kind"]]
    rtype = sc.get("rtype", "BASE-VARIANT")
    LR = new_layer("LR", rtype)
    LS = new_layer("LS", rtype if rtype != "ECU-SHARED-DATA" else "BASE-VARIANT")
    LO = new_layer("LO", "BASE-VARIANT")
    LQ = new_layer("LQ", "ECU-VARIANT")
    LQ["parents"] = [{"ref": {"ref": "LID.LO"}, "ptype": "BASE-VARIANT"}]
    LE = new_layer("LE", "ECU-SHARED-DATA")
    byname = {"LR": LR, "LS": LS, "LO": LO, "LE": LE}
    for loc in sc["defs"]:
        add(byname[loc], kind.target(loc, X_ID, "T@" + loc, "t_X"))
    for imp in sc["imports"]:
        byname[imp]["imports"] = [copy.deepcopy(IMPORT_REF)]
    ref: Dict[str, Any] = {"ref": X_ID}
    doc = FORMS[sc["form"]]
    if doc is not None:
        ref["doc"] = doc
    add(LR, kind.source("LR", ref))
    ca = {"sn": "CA", "id": "CID.CA", "m": "container:CA", "layers": [LS, LR] if sc.get("s_first") else [LR, LS]}
    cb = {"sn": "CB", "id": "CID.CB", "m": "container:CB", "layers": [LO, LQ]}
    cs = {"sn": "CS", "id": "CID.CS", "m": "container:CS", "layers": [LE]}
    world = {"containers": [cb, ca, cs] if sc.get("cb_first") else [ca, cb, cs]}
    probe = {"mode": "id", "owner": ("layer", "LR"), "ref": ref}
    return world, probe


def judge(expected: Tuple[str, str], loaded: bool, got: Any, err: Optional[BaseException]) -> Optional[Tuple[str, str]]:
    """-> None if fine, else (failure mode, detail)"""
    verdict, what = expected
    if verdict == "DONTCARE":
        return None
    if verdict == "FAIL":
        if loaded:
            return ("bound-instead-of-error", f"must not resolve ({what}) but loading succeeded and the reference is bound to {got!r}")
        return None
    # BIND
    if not loaded:
        return ("error-instead-of-binding", f"must resolve to {what!r} but loading raised {type(err).__name__}: {err}")
    if got != what:
        return ("wrong-target", f"must resolve to {what!r} but is bound to {got!r}")
    return None


def run_id_scenario(sc: Dict[str, Any]) -> Tuple[Tuple[str, str], Optional[Tuple[str, str]], str]:
    """-> (expected outcome, failure or None, observed summary)"""
    world, probe = id_world(sc)
    expected = reflinks.Model(world).expect(probe)
    db, err = try_load(world)
    got = None
    if db is not None:
        try:
            got = marker_of(KIND[sc["kind"]].observe(db.diag_layers["LR"]))
        except Exception as e:  # noqa: BLE001
            got = f"<unobservable: {type(e).__name__}: {e}>"
    fail = judge(expected, db is not None, got, err)
    observed = ("bound:" + str(got)) if db is not None else ("raised:" + type(err).__name__)
    return expected, fail, observed


def situation_name(sc: Dict[str, Any]) -> str:
    """stable, value-free name of the (definitions, imports, order) situation"""
    d = "+".join(sc["defs"]) or "nowhere"
    i = "+".join(sc["imports"]) or "none"
    o = ("S-first" if sc.get("s_first") else "R-first") + ("/CB-first" if sc.get("cb_first") else "/CA-first")
    return f"defs={d}/imports={i}/{o}"


def id_key(sc: Dict[str, Any], mode: str, scope: str) -> str:
    fam = "idref" if scope == "family" else "idref:" + sc["kind"]
    rt = "" if sc.get("rtype", "BASE-VARIANT") == "BASE-VARIANT" else "/referrer=" + sc["rtype"]
    return f"C10/{fam}/{sc['form']}/{situation_name(sc)}{rt}/{mode}"


def id_cells(quick: bool) -> List[Dict[str, Any]]:
    """all (form, defs, imports, orders, referrer type) cells; each cell is evaluated for every reference kind"""
    cells = []
    subsets = lambda xs: [list(c) for n in range(len(xs) + 1) for c in itertools.combinations(xs, n)]  # noqa: E731
    for form in FORMS:
        for defs in subsets(LOCS):
            for imps in subsets(IMPORTERS):
                for s_first in (False, True):
                    for cb_first in (False, True):
                        if quick:
                            # quick: at most one importer; document orders only where they can matter
                            if len(imps) > 1:
                                continue
                            if s_first and imps != ["LS"]:
                                continue
                            if cb_first and imps != ["LO"]:
                                continue
                        cells.append({"form": form, "defs": defs, "imports": imps, "s_first": s_first, "cb_first": cb_first})
    return cells


def id_unit(unit: Tuple[List[Dict[str, Any]], List[str]]) -> Part:
    cells, kinds = unit
    part = Part()
    for cell in cells:
        results = []
        for kn in kinds:
            sc = dict(cell, kind=kn)
            expected, fail, observed = run_id_scenario(sc)
            part.count("evaluations")
            part.count("odxlink_scenarios")
            part.count("expect_" + expected[0].lower())
            part.add("outcome_classes", (expected[0], observed.split(":")[0]))
            if observed.startswith("raised:"):
                part.add("exception_types", observed[7:])
            part.add("nontrivial", digest((kn, cell["form"], cell["defs"], cell["imports"], expected[0], observed.split(":")[0])))
            results.append((sc, expected, fail, observed))
        judged = [r for r in results if r[1][0] != "DONTCARE"]
        failed = [r for r in judged if r[2] is not None]
        modes = {r[2][0] for r in failed}
        family_wide = len(failed) == len(judged) and len(modes) == 1 and len(judged) > 1
        for sc, expected, fail, observed in failed:
            scope = "family" if family_wide else "kind"
            case = {"family": "I", "scope": scope, "sc": sc}
            part.violation(id_key(sc, fail[0], scope), case, f"{sc['kind']}: {fail[1]} [expected {expected}]")
    return part


# ---------------------------------------------------------------------------------------------
# run / replay
# ---------------------------------------------------------------------------------------------
def run(ctx: Ctx) -> None:
    kinds = [k.name for k in KINDS]
    cells = id_cells(ctx.quick)
    ctx.bounds = {"odxlink": {"kinds": kinds, "forms": list(FORMS), "definition_locations": LOCS, "importers": IMPORTERS,
                              "cells": len(cells)}}
    ctx.rule = ("one database per scenario; non-trivial = distinct (reference kind, addressing form, definition set, import set, "
                "expected verdict, observed class) combinations")
    ctx.assumptions = ["layer SHORT-NAMEs are unique in the database (ISO 22901-1 7.3.2.1)",
                       "any exception raised by the loader in strict mode counts as 'raises an error'"]
    n = 24
    units = [(cells[i::n * 4], kinds) for i in range(n * 4)]
    pmap(ctx, id_unit, [u for u in units if u[0]])
    oc = ctx.sets.get("outcome_classes", set())
    ctx.guard("references that must bind and do bind were seen", ("BIND", "bound") in oc)
    ctx.guard("references that must fail and do fail were seen", ("FAIL", "raised") in oc)
    ctx.guard("don't-care scenarios were seen (duplicate IDs in one container)", any(o[0] == "DONTCARE" for o in oc))


def replay(case: Any) -> List[Tuple[str, str]]:
    out: List[Tuple[str, str]] = []
    if case.get("family") == "I":
        sc = case["sc"]
        expected, fail, observed = run_id_scenario(sc)
        if fail is not None:
            out.append((id_key(sc, fail[0], case.get("scope", "kind")), f"{sc['kind']}: {fail[1]} [expected {expected}]"))
    return out
