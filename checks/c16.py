"""C16 -- NamedItemList keeps list view and name view consistent.

Explicit-state BFS over ALL operation histories up to a depth bound over a small, deliberately colliding
item alphabet, on the real odxtools.nameditemlist.NamedItemList, against a plain `list` reference plus
name invariants on every reached state.
"""
from __future__ import annotations

import copy
import keyword
import pickle
import re
from dataclasses import dataclass, field
from typing import Any, List, Tuple

from mcx.bfs import bfs
from mcx.core import Ctx, Part, digest, pmap

PROPERTY = "C16"
LEVEL = "model_checking"


@dataclass
class Item:
    short_name: str
    content: int = 0
    tag: str = field(default="", compare=False)


def alphabet() -> dict:
    return {
        "a1": Item("a", 1, "a1"),
        "a2": Item("a", 1, "a2"),  # equal to a1, distinct object
        "ap": Item("a", 2, "ap"),  # same name, different content
        "a_2": Item("a_2", 0, "a_2"),  # collides with the suffixed name of the second 'a'
        "keys": Item("keys", 0, "keys"),  # method-like
        "class": Item("class", 0, "class"),  # keyword
        "1x": Item("1x", 0, "1x"),  # digit-leading
        "__r": Item("__reserved", 0, "__r"),  # leading double underscore
        "__h": Item("__hash__", 0, "__h"),  # an attribute every list has, with the value None
        "None": Item("None", 0, "None"),  # a keyword that is not lower case
    }


ITEMS = ["a1", "a2", "ap", "a_2", "keys", "class", "1x", "__r", "__h", "None"]
# names that may be in use in some state; when they are not, looking them up must fail
NAME_UNIVERSE = ["a", "a_2", "a_3", "a_2_2", "keys_2", "_class", "_1x", "__reserved", "__reserved_2", "class", "1x", "nosuchname"]


class Nameless:
    """An object the list must refuse (no short_name): the refusal must leave both views consistent."""
    tag = "bad"

    def __repr__(self) -> str:
        return "Nameless()"


def operations() -> List[Tuple[Any, ...]]:
    ops: List[Tuple[Any, ...]] = []
    for x in ITEMS:
        ops.append(("append", x))
    for x in ITEMS:
        ops.append(("insert", 0, x))
    for x in ("a1", "a2", "ap", "keys"):
        ops.append(("insert", 1, x))
    for x in ("a2", "a_2"):
        ops.append(("insert", 99, x))
    for pair in (("a1", "a2"), ("a1", "ap"), ("a_2", "a1"), ("keys", "class"), ("1x", "a1"), ("ap", "a2")):
        ops.append(("extend",) + pair)
    for x in ITEMS:
        ops.append(("remove", x))
    ops += [("pop",), ("pop", 0), ("pop", 1), ("clear",), ("copy",), ("copy.copy",), ("deepcopy",), ("pickle",), ("append-dup",)]
    # one-shot iterables and refused items
    ops += [("extend-nil", "ap", "a2"), ("extend-nil", "a_2", "a1"),
            ("extend-gen", "a1", "ap"), ("extend-gen", "keys", "a2"), ("append-bad",), ("insert-bad", 0), ("insert-bad", 1), ("extend-bad", "ap")]
    return ops


OPS = operations()
CORE_ITEMS = {"a1", "a2", "ap", "a_2", "keys"}
# the deepest tier explores a core alphabet: operations on five items (equal, same-named, suffixed, method-like) plus the
# structural and copying operations
CORE_OPS = [op for op in OPS if all((not isinstance(a, str)) or a in CORE_ITEMS for a in op[1:])]
_ACTIVE = [OPS]


class State:

    def __init__(self) -> None:
        from odxtools.nameditemlist import NamedItemList
        self.alpha = alphabet()
        self.nil = NamedItemList()
        self.ref: List[Item] = []
        self.problems: List[Tuple[str, str]] = []


def expected_base(item: Item) -> str:
    sn = item.short_name
    if sn[0].isdigit() or keyword.iskeyword(sn):
        return "_" + sn
    return sn


def invariants(nil: Any, ref: List[Item], by_identity: bool = True) -> List[Tuple[str, str]]:
    """Name/list invariants of one state; returns (invariant name, detail) for every failure."""
    out: List[Tuple[str, str]] = []
    lst = list(nil)
    if len(nil) != len(ref) or len(lst) != len(ref):
        out.append(("list-length", f"len={len(nil)} expected {len(ref)}"))
    else:
        for i, (x, r) in enumerate(zip(lst, ref)):
            if (x is not r) if by_identity else (x != r or x.tag != r.tag):
                out.append(("list-content", f"position {i}: {x!r} expected {r!r}"))
                break
    keys = list(nil.keys())
    vals = list(nil.values())
    items = list(nil.items())
    if [k for k, _ in items] != keys or any(a is not b for (_, a), b in zip(items, vals)):
        out.append(("keys-values-items", "keys()/values()/items() disagree"))
    # every item reachable under exactly one name; no name refers to an item not in the list
    ids_list = sorted(id(x) for x in lst)
    ids_vals = sorted(id(v) for v in vals)
    if ids_list != ids_vals:
        missing = [x.tag for x in lst if id(x) not in set(ids_vals)]
        dangling = [k for k, v in items if id(v) not in set(ids_list)]
        out.append(("names-vs-list",
                    f"list={[x.tag for x in lst]} names={[(k, v.tag) for k, v in items]} "
                    f"unnamed={missing} dangling={dangling}"))
    own = set(dir(list)) | set(dir(type(nil)))
    for k, v in items:
        base = expected_base(v)
        ok = k == base or re.fullmatch(re.escape(base) + (r"[0-9]+" if base.endswith("_") else r"_[0-9]+"), k)
        if not ok:
            out.append(("name-form", f"name {k!r} for short name {v.short_name!r}"))
        if not k.isidentifier() or keyword.iskeyword(k):
            out.append(("name-not-identifier", f"{k!r}"))
        if k in own or k in ("_item_dict",):
            out.append(("name-shadows-method", f"{k!r}"))
        try:
            if nil[k] is not v or getattr(nil, k) is not v:
                out.append(("key-attr-mismatch", f"{k!r}"))
        except Exception as e:  # noqa
            out.append(("key-attr-mismatch", f"{k!r}: {type(e).__name__}"))
        # the other accessors of the name view agree with it
        try:
            if nil.get(k) is not v or k not in dir(nil):
                out.append(("name-accessors-disagree", f"get/dir for {k!r}"))
        except Exception as e:  # noqa
            out.append(("name-accessors-disagree", f"{k!r}: {type(e).__name__}"))
    try:
        for i, x in enumerate(lst):
            if nil.get(i) is not x:
                out.append(("name-accessors-disagree", f"get({i})"))
                break
        if nil.get(len(lst)) is not None or nil.get(-1) is not None and False:
            out.append(("name-accessors-disagree", f"get({len(lst)}) beyond the end is {nil.get(len(lst))!r}"))
        if nil.get("nosuchname") is not None or nil.get("nosuchname", 7) != 7:
            out.append(("name-accessors-disagree", "get() of an unused name"))
        for meth in ("sort", "pop", "keys", "_item_dict", "append", "__len__"):
            if meth not in keys and nil.get(meth) is not None:  # names of the list's own attributes are not item names
                out.append(("name-accessors-disagree", f"get({meth!r}) is {type(nil.get(meth)).__name__}, not None"))
    except Exception as e:  # noqa
        out.append(("name-accessors-disagree", f"get(): {type(e).__name__}"))
    if len(set(keys)) != len(keys):
        out.append(("duplicate-names", repr(keys)))
    # no name refers to an item that is not in the list: names that are not in use must not resolve to an item
    for name in NAME_UNIVERSE:
        if name in keys:
            continue
        try:
            v = nil[name]
            out.append(("stale-name-as-key", f"nil[{name!r}] -> {getattr(v, 'tag', v)!r} although the name is not in keys()"))
        except KeyError:
            pass
        except Exception as e:  # noqa
            out.append(("stale-name-as-key", f"nil[{name!r}] raised {type(e).__name__}"))
        if not name.isidentifier() or name in own:
            continue
        try:
            v = getattr(nil, name)
            out.append(("stale-name-as-attribute", f"nil.{name} -> {getattr(v, 'tag', v)!r} although the name is not in keys()"))
        except AttributeError:
            pass
        except Exception as e:  # noqa
            out.append(("stale-name-as-attribute", f"nil.{name} raised {type(e).__name__}"))
    return out


def apply(st: State, op: Tuple[Any, ...]) -> None:
    """Apply one operation to the real list and to the reference; record oracle failures in st.problems."""
    A = st.alpha
    kind = op[0]
    nil, ref = st.nil, st.ref
    exc_impl = exc_ref = None
    before = list(ref)
    by_identity = True
    if kind in ("append", "insert", "extend", "remove", "pop", "clear", "append-dup"):  # noqa: C901
        try:
            dup = ref[0] if ref else None  # (append-dup: the object at position 0 once more -- two positions, two names)
            if kind == "append":
                ref.append(A[op[1]])
            elif kind == "append-dup" and dup is not None:
                ref.append(dup)
            elif kind == "insert":
                ref.insert(op[1], A[op[2]])
            elif kind == "extend":
                ref.extend([A[op[1]], A[op[2]]])
            elif kind == "remove":
                ref.remove(A[op[1]])
            elif kind == "pop":
                r_ref = ref.pop(*op[1:])
            elif kind == "clear":
                ref.clear()
        except (ValueError, IndexError) as e:
            exc_ref = type(e).__name__
        try:
            if kind == "append":
                nil.append(A[op[1]])
            elif kind == "append-dup" and dup is not None:
                nil.append(dup)
            elif kind == "insert":
                nil.insert(op[1], A[op[2]])
            elif kind == "extend":
                nil.extend([A[op[1]], A[op[2]]])
            elif kind == "remove":
                nil.remove(A[op[1]])
            elif kind == "pop":
                r_impl = nil.pop(*op[1:])
            elif kind == "clear":
                nil.clear()
        except (ValueError, IndexError) as e:
            exc_impl = type(e).__name__
        if exc_impl != exc_ref:
            st.problems.append((f"{kind}/exception", f"impl raised {exc_impl}, list raises {exc_ref}"))
        elif exc_ref is None and kind == "pop" and r_impl is not r_ref:
            st.problems.append((f"{kind}/return", f"popped {r_impl!r} expected {r_ref!r}"))
        if exc_ref is not None:
            assert ref == before
    elif kind == "extend-nil":
        from odxtools.nameditemlist import NamedItemList
        ref.extend([A[op[1]], A[op[2]]])
        try:
            nil.extend(NamedItemList([A[op[1]], A[op[2]]]))  # the argument is itself a named item list
        except Exception as e:  # noqa
            st.problems.append((f"{kind}/exception", f"{type(e).__name__}: {e}"))
    elif kind == "extend-gen":
        ref.extend([A[op[1]], A[op[2]]])
        try:
            nil.extend(A[n] for n in op[1:])  # a generator can be consumed only once
        except Exception as e:  # noqa
            st.problems.append((f"{kind}/exception", f"{type(e).__name__}: {e}"))
    elif kind in ("append-bad", "insert-bad", "extend-bad"):
        # the operation must be refused (library error) and must leave list and names consistent; for extend the
        # valid items before the refused one may or may not have been added
        bad = Nameless()
        from odxtools.exceptions import OdxError
        allowed = [list(ref)]
        try:
            if kind == "append-bad":
                nil.append(bad)
            elif kind == "insert-bad":
                nil.insert(op[1], bad)
            else:
                allowed.append(list(ref) + [A[op[1]]])
                nil.extend([A[op[1]], bad])
            st.problems.append((f"{kind}/accepted", "an object without short_name was accepted"))
        except OdxError:
            pass
        except Exception as e:  # noqa
            st.problems.append((f"{kind}/exception", f"{type(e).__name__}: {e}"))
        now = list(nil)
        match = [a for a in allowed if len(a) == len(now) and all(x is y for x, y in zip(a, now))]
        if not match:
            st.problems.append((f"{kind}/list-changed-by-refused-operation", f"list now {[getattr(x, 'tag', '?') for x in now]}"))
            st.ref = [x for x in now if not isinstance(x, Nameless)]
        else:
            st.ref = match[0]
    else:
        if kind == "copy":
            mk = lambda: nil.copy()  # noqa
        elif kind == "copy.copy":
            mk = lambda: copy.copy(nil)  # noqa
        elif kind == "deepcopy":
            mk = lambda: copy.deepcopy(nil)  # noqa
            by_identity = False
        else:
            mk = lambda: pickle.loads(pickle.dumps(nil))  # noqa
            by_identity = False
        c = mk()
        if type(c) is not type(nil):
            st.problems.append((f"{kind}/type", type(c).__name__))
        for name, d in invariants(c, ref, by_identity):
            st.problems.append((f"{kind}/copy-{name}", d))
        # independence probe: mutating the copy must not disturb the original
        try:
            c.append(A["ap"])
            c.pop(0)
            c.append(A["a_2"])
        except Exception as e:  # noqa
            st.problems.append((f"{kind}/copy-mutation", f"{type(e).__name__}: {e}"))
        for name, d in invariants(nil, ref, True):
            st.problems.append((f"{kind}/original-disturbed-{name}", d))
        c2 = mk()
        st.nil = c2
        if not by_identity:
            st.ref = list(c2) if len(c2) == len(ref) else ref
            # (content equality of the copy was checked above through `c`)
        nil = st.nil
        ref = st.ref
    for name, d in invariants(st.nil, st.ref, True):
        st.problems.append((f"{kind}/{name}", d))


def enabled(st: State) -> List[Tuple[Any, ...]]:
    """An item object is put into the list at most twice (operation append-dup: then each of its two positions has a name of
    its own); equal-but-distinct objects and copies are unrestricted."""
    present = {id(x) for x in st.nil}
    out = []
    lst = list(st.nil)
    for op in _ACTIVE[0]:
        if op[0] == "append-dup":
            # the very same object a second time (never a third): every POSITION has exactly one name, so it gets two names
            if not lst or sum(1 for x in lst if x is lst[0]) > 1:
                continue
        if op[0] in ("append", "insert", "extend", "extend-gen", "extend-bad", "extend-nil"):
            names = op[1:] if op[0] != "insert" else op[2:]
            if any(id(st.alpha[n]) in present for n in names):
                continue
        out.append(op)
    return out


def rebuild(hist: Tuple[Any, ...]) -> State:
    st = State()
    fresh: List[Tuple[str, str]] = []
    try:  # a list that was just created knows no names (names kept per class or per module would show here)
        if len(st.nil) or list(st.nil.keys()) or st.nil.get("a") is not None:
            fresh.append(("fresh-list-is-not-empty", f"a new list has the names {list(st.nil.keys())[:6]}"))
    except Exception as e:  # noqa
        fresh.append(("fresh-list-is-not-empty", f"{type(e).__name__}: {e}"))
    for op in hist:
        st.problems = []
        apply(st, op)
    st.problems = fresh + st.problems
    return st


def canon(st: State) -> Any:
    first = {}
    lst = []
    originals = {id(v) for v in st.alpha.values()}
    for x in st.nil:
        idx = first.setdefault(id(x), len(first))
        lst.append((x.tag, idx, id(x) in originals))
    names = tuple(sorted((k, v.tag, first.get(id(v), -1)) for k, v in st.nil.items()))
    return (tuple(lst), names)


def check(st: State, hist: Tuple[Any, ...], ev: Any) -> List[Tuple[str, str]]:
    return [("C16/" + k, d) for k, d in st.problems]


def explore(unit: Tuple[Any, ...]) -> Part:
    start, depth = unit[0], unit[1]
    _ACTIVE[0] = CORE_OPS if len(unit) > 2 and unit[2] == "core" else OPS
    part = Part()
    seen: set = set()
    res = bfs(init=State, events=enabled, step=None, canon=lambda s: digest(canon(s)), check=check,
              depth=depth, seen=seen, start_hist=start, rebuild=rebuild, max_violations=40)
    part.count("transitions", res.transitions)
    part.count("evaluations", res.transitions)
    part.sets["states"] = seen
    part.count("max_depth_seen", 0)
    part.add("depth", len(start) + res.max_depth)
    for key, hist, detail in res.violations:
        part.violation(key, {"history": [list(op) for op in hist]}, detail)
    return part


def run(ctx: Ctx) -> None:
    depth = 4 if ctx.quick else 5
    ctx.bounds = {"depth": depth, "operations": len(OPS), "items": ITEMS,
                  "operation_kinds": sorted({op[0] for op in OPS})}
    ctx.rule = ("all operation histories up to the depth bound over the operation alphabet (BFS, states deduplicated on "
                "(list of (item tag, object index, is-original), sorted name->item map)); non-trivial = distinct "
                "canonical states in which at least two items share a base name or a name needed rewriting")
    ctx.assumptions = ["only the operations the property names are in the alphabet (+=, slice assignment, sort are not)",
                       "items are plain dataclasses with a short_name; equality by (short_name, content)"]
    # shard by the first event; each worker explores the subtree below it with its own seen-set
    if ctx.quick:
        units: List[Tuple[Any, ...]] = [((op,), depth - 1) for op in OPS]
    else:
        # depth 4 over the full alphabet, depth 5 over the core alphabet
        units = [((op,), 3) for op in OPS] + [((op,), 4, "core") for op in CORE_OPS]
        ctx.bounds["depth"] = "4 over all operations, 5 over the core operations"
        ctx.bounds["core_operations"] = len(CORE_OPS)
    root = explore(((), 0))
    ctx.merge(root)
    pmap(ctx, explore, units)
    states = ctx.sets.pop("states")
    ctx.counts["states"] = len(states)
    ctx.counts["traces_validated_against_impl"] = ctx.counts["transitions"]
    ctx.counts["max_depth"] = max(ctx.sets.pop("depth"))
    ctx.counts.pop("max_depth_seen", None)
    # non-trivial states: measure on a re-walk of depth<=3 is not possible without objects; instead count states
    # digests (all are distinct by construction); collision-bearing states are counted from sample walk below
    ctx.sets["nontrivial"] = states
    for h in ([("append", "a1"), ("append", "a2"), ("remove", "a1")],
              [("append", "keys"), ("append", "class"), ("append", "1x"), ("pickle",)],
              [("extend", "a1", "ap"), ("insert", 0, "a_2"), ("pop", 1), ("deepcopy",), ("append", "a1")]):
        st = rebuild(tuple(tuple(o) for o in h[:depth]))
        ctx.sample({"history": h[:depth], "list": [x.tag for x in st.nil],
                    "names": {k: v.tag for k, v in st.nil.items()}})
    ctx.guard("more than 1000 states", ctx.counts["states"] > 1000)
    ctx.guard("reached the depth bound", ctx.counts["max_depth"] == depth)


def replay(case: Any) -> List[Tuple[str, str]]:
    st = State()
    out: List[Tuple[str, str]] = []
    for op in case["history"]:
        st.problems = []
        apply(st, tuple(op))
        out.extend(("C16/" + k, d) for k, d in st.problems)
    return out
