"""C12 -- ISO-TP reassembly returns exactly the transmitted telegrams.

(a) single ID: every telegram length in the bound x frame size x padding mode, segmented by the reference
    segmenter and fed to the real IsoTpStateMachine;
(b) sequences of telegrams per ID;
(c) explicit-state BFS over ALL interleavings of the frame scripts of up to 3 IDs, with a budget of
    flow-control frames per ID and frames of an unrelated ID inserted at every point; the real object's per-ID
    state is part of the canonical state;
(d) the same streams rendered as candump text in both formats through read_telegrams();
(e) IsoTpActiveDecoder on a recording fake bus: every first frame is answered by a clear-to-send flow control
    frame on the paired TX id before the next frame is processed.
"""
from __future__ import annotations

import copy
import contextlib
import io
from typing import Any, Dict, List, Optional, Tuple

from mcx.bfs import bfs
from mcx.core import Ctx, Part, digest, pmap
from odxmodel.refisotp import FD_SIZES, pattern, segment

PROPERTY = "C12"
LEVEL = "model_checking"

IDS = (0x7E8, 0x7E9, 0x18DAF110)
FOREIGN = 0x123
PADS: List[Tuple[str, Optional[int], bool]] = [("none", None, False), ("AA", 0xAA, False), ("00", 0x00, False),
                                               ("CC-to-txdl", 0xCC, True)]


def fh(b: bytes) -> str:
    return bytes(b).hex()


def feed(sm: Any, frames: List[Tuple[int, bytes]]) -> Tuple[List[Tuple[int, bytes]], Optional[str]]:
    out: List[Tuple[int, bytes]] = []
    for cid, d in frames:
        try:
            for i, t in sm.decode_rx_frame(cid, d):
                out.append((i, bytes(t)))
        except Exception as e:  # noqa
            return out, f"{type(e).__name__}: {e}"
    return out, None


def size_class(n: int, tx_dl: int) -> str:
    if n <= 7:
        return "SF"
    if tx_dl > 8 and n <= tx_dl - 2:
        return "SF-fd-escape"
    ncf = -(-(n - (tx_dl - 2)) // (tx_dl - 1))
    return "multi-wrap" if ncf > 15 else "multi"


# ---------------------------------------------------------------------------------------------
# (a)+(b) single ID
# ---------------------------------------------------------------------------------------------
def single_unit(unit: Tuple[int, List[int]]) -> Part:
    from odxtools.isotp_state_machine import IsoTpStateMachine
    tx_dl, lengths = unit
    part = Part()
    for n in lengths:
        payload = pattern(n, tx_dl)
        for pname, pad, to_txdl in PADS:
            frames = [(IDS[0], f) for f in segment(payload, tx_dl, pad, to_txdl)]
            sm = IsoTpStateMachine([IDS[0], IDS[1]])
            out, exc = feed(sm, frames)
            part.count("single_id_telegrams")
            part.count("frames_fed", len(frames))
            part.add("nontrivial", (tx_dl, pname, size_class(n, tx_dl), len(frames) % 16))
            case = {"mode": "single", "tx_dl": tx_dl, "len": n, "pad": pname}
            if exc is not None:
                part.violation(f"C12/single/{size_class(n, tx_dl)}/raises", case, exc)
            elif out != [(IDS[0], payload)]:
                part.violation(f"C12/single/{size_class(n, tx_dl)}/wrong-telegrams", case,
                               f"len {n} tx_dl {tx_dl} pad {pname}: got {[(hex(i), len(t), fh(t[:12])) for i, t in out]}")
    return part


def seq_unit(unit: Tuple[int, Tuple[int, ...]]) -> Part:
    """(b) several telegrams in a row on one ID through ONE state machine."""
    from odxtools.isotp_state_machine import IsoTpStateMachine
    tx_dl, lens = unit[0], unit[1]
    same = len(unit) > 2 and unit[2] == "same"  # the very same telegram (payload and padding) several times in a row
    part = Part()
    sm = IsoTpStateMachine([IDS[0]])
    frames: List[Tuple[int, bytes]] = []
    expect = []
    for k, n in enumerate(lens):
        p = pattern(n, 3 if same else k + 3)
        expect.append((IDS[0], p))
        frames += [(IDS[0], f) for f in segment(p, tx_dl, 0xAA if same else [None, 0xAA, 0x00][k % 3])]
    out, exc = feed(sm, frames)
    part.count("telegram_sequences")
    part.add("nontrivial", ("seq", tx_dl, tuple(size_class(n, tx_dl) for n in lens)))
    case = {"mode": "seq", "tx_dl": tx_dl, "lens": list(lens), "same": same}
    if exc is not None:
        part.violation("C12/sequence/raises", case, exc)
    elif out != expect:
        part.violation("C12/sequence/wrong-telegrams", case, f"lens {lens}: got {[(len(t), fh(t[:8])) for _, t in out]}")
    return part


# ---------------------------------------------------------------------------------------------
# (c) interleavings
# ---------------------------------------------------------------------------------------------
SHAPES = {"SF": 5, "FF+1CF": 10, "FF+2CF": 18, "FF+17CF": 6 + 7 * 16 + 4, "FD3": 150, "FD2": 20}


def scripts_for(combo: Tuple[Tuple[str, ...], ...]) -> List[Tuple[List[bytes], List[bytes], List[int]]]:
    """combo[i] = tuple of shape names sent on IDS[i]; returns per ID (frames, telegrams)."""
    out = []
    for i, shapes in enumerate(combo):
        frames: List[bytes] = []
        tel: List[bytes] = []
        counts: List[int] = []
        for k, sh in enumerate(shapes):
            name, _, dl = sh.partition("@")  # "FD3@64": this telegram travels in 64-byte CAN FD frames
            p = pattern(SHAPES[name], 16 * i + k)
            tel.append(p)
            fr = segment(p, int(dl) if dl else 8, [0xAA, None, 0x00][i % 3])
            counts.append(len(fr))
            frames += fr
        out.append((frames, tel, counts))
    return out


class IlState:

    def __init__(self, combo: Tuple[Tuple[str, ...], ...], fc_budget: int, foreign_budget: int) -> None:
        from odxtools.isotp_state_machine import IsoTpStateMachine
        self.scripts = scripts_for(combo)
        self.n = len(combo)
        self.sm = IsoTpStateMachine(list(IDS[:self.n]))
        self.pos = [0] * self.n
        self.fc = [fc_budget] * self.n
        self.foreign = foreign_budget
        self.out: List[List[bytes]] = [[] for _ in range(self.n)]
        self.problems: List[Tuple[str, str]] = []

    def impl_state(self) -> Any:
        sm = self.sm
        known = {"_telegram_specified_len", "_telegram_data", "_telegram_last_rx_fragment_idx"}
        other = tuple(sorted((k, repr(v)) for k, v in vars(sm).items() if k not in known and not callable(v)))  # caches etc. are state too
        try:
            return (tuple(sm._telegram_specified_len), tuple(None if d is None else bytes(d) for d in sm._telegram_data),
                    tuple(sm._telegram_last_rx_fragment_idx), other)
        except AttributeError:
            return repr(sorted(sm.__dict__.items()))

    def canon(self) -> Any:
        return (tuple(self.pos), tuple(self.fc), self.foreign, self.impl_state(),
                tuple(tuple(o) for o in self.out))

    def events(self) -> List[Tuple[str, int]]:
        ev: List[Tuple[str, int]] = []
        for i in range(self.n):
            if self.pos[i] < len(self.scripts[i][0]):
                ev.append(("next", i))
        if any(self.pos[i] < len(self.scripts[i][0]) for i in range(self.n)):
            for i in range(self.n):
                if self.fc[i] > 0:
                    ev.append(("fc", i))
            if self.foreign > 0:
                ev.append(("foreign", 0))
        return ev

    def step(self, ev: Tuple[str, int]) -> "IlState":
        s = copy.copy(self)
        s.sm = copy.deepcopy(self.sm)
        s.pos = list(self.pos)
        s.fc = list(self.fc)
        s.out = [list(o) for o in self.out]
        s.problems = []
        kind, i = ev
        if kind == "next":
            cid, data = IDS[i], s.scripts[i][0][s.pos[i]]
            s.pos[i] += 1
        elif kind == "fc":
            cid, data = IDS[i], bytes([0x30, 0x00, 0x05])
            s.fc[i] -= 1
        else:
            # a frame of an unrelated ID that looks like a consecutive frame (first one) / a single frame (second one)
            cid = FOREIGN
            data = bytes([0x21, 0xDE, 0xAD, 0xBE, 0xEF, 0x00, 0x01, 0x02]) if s.foreign % 2 else bytes([0x03, 0xDE, 0xAD, 0xBE])
            s.foreign -= 1
        try:
            got = [(c, bytes(t)) for c, t in s.sm.decode_rx_frame(cid, data)]
        except Exception as e:  # noqa
            s.problems.append((f"C12/interleave/raises/{kind}", f"{type(e).__name__}: {e}"))
            return s
        for c, t in got:
            if c not in IDS[:s.n]:
                s.problems.append((f"C12/interleave/foreign-id-telegram/{kind}", f"telegram reported for id {c:#x}"))
                continue
            j = IDS.index(c)
            s.out[j].append(t)
            if kind != "next" or j != i:
                s.problems.append((f"C12/interleave/telegram-on-{kind}-frame", f"telegram for {c:#x} while delivering {kind} {IDS[i]:#x}"))
        # safety: what has been reported for each ID is a prefix of what was sent, and everything whose last
        # frame has been delivered has been reported
        for j in range(s.n):
            frames, tel, _counts = s.scripts[j]
            exp = expected_after(s, j)
            if s.out[j] != exp:
                s.problems.append((f"C12/interleave/wrong-telegrams/{kind}",
                                   f"id {IDS[j]:#x} after {s.pos[j]} frames: reported {[fh(t[:6]) + '..' + str(len(t)) for t in s.out[j]]}, "
                                   f"sent {[fh(t[:6]) + '..' + str(len(t)) for t in exp]}"))
        return s


def expected_after(s: IlState, j: int) -> List[bytes]:
    frames, tel, counts = s.scripts[j]
    done = 0
    exp: List[bytes] = []
    for p, nfr in zip(tel, counts):
        done += nfr
        if s.pos[j] >= done:
            exp.append(p)
    return exp


def interleave_unit(unit: Tuple[Tuple[Tuple[str, ...], ...], int, int]) -> Part:
    combo, fcb, forb = unit
    part = Part()
    seen: set = set()
    res = bfs(init=lambda: IlState(combo, fcb, forb), events=lambda s: s.events(), step=lambda s, e: s.step(e),
              canon=lambda s: digest(s.canon()), check=lambda s, h, e: s.problems, depth=10_000, seen=seen)
    part.count("transitions", res.transitions)
    part.count("interleaving_transitions", res.transitions)
    part.count("states", res.states)
    part.count("interleaving_harnesses")
    part.add("nontrivial", ("il", combo, fcb, forb))
    part.add("lattice_sizes", res.states)
    if res.frontier_left:
        part.caps.append(f"interleaving BFS of {combo} stopped at the depth cap")
    for key, hist, detail in res.violations:
        part.violation(key, {"mode": "interleave", "combo": [list(c) for c in combo], "fc": fcb, "foreign": forb,
                             "schedule": [list(e) for e in hist]}, detail)
    return part


# ---------------------------------------------------------------------------------------------
# (d) candump text, (e) active decoder
# ---------------------------------------------------------------------------------------------
def render(frames: List[Tuple[int, bytes]], fmt: str) -> str:
    lines = []
    for k, (cid, d) in enumerate(frames):
        if fmt == "normal":
            lines.append(f"  can0  {cid:03X}   [{len(d)}]  " + " ".join(f"{b:02X}" for b in d))
        elif fmt == "log":
            if len(d) > 8:
                lines.append(f"({1000 + k}.{k:06d}) can0 {cid:03X}##1{d.hex().upper()}")
            else:
                lines.append(f"({1000 + k}.{k:06d}) can0 {cid:03X}#{d.hex().upper()}")
    return "\n".join(lines) + "\n"


def drive_async(agen: Any) -> List[Any]:
    """Drive an async generator that never really awaits (text branch) without an event loop."""
    out = []
    while True:
        try:
            coro = agen.__anext__()
            try:
                coro.send(None)
            except StopIteration as si:
                out.append(si.value)
                continue
            except StopAsyncIteration:
                return out
            raise RuntimeError("read_telegrams awaited something in the text branch")
        except StopAsyncIteration:
            return out


NOISE = ["", "   ", "# a comment", "  can0  7E8   [0]", "(1000.000000) can0 7E8#", "(1000.000001) can0 7E8#R", "interface = can0"]


def text_unit(unit: Tuple[Any, ...]) -> Part:
    from odxtools.isotp_state_machine import IsoTpStateMachine
    tx_dl, lens, fmt = unit[:3]
    noise = bool(unit[3]) if len(unit) > 3 else False
    cut = bool(unit[4]) if len(unit) > 4 else False  # the log ends with the last frame of a telegram and without a newline
    part = Part()
    frames: List[Tuple[int, bytes]] = []
    for k, n in enumerate(lens):
        cid = IDS[k % 2]
        fr = [(cid, f) for f in segment(pattern(n, k), tx_dl, [None, 0xAA][k % 2])]
        frames += fr
        frames.append((FOREIGN, bytes([0x02, 0x3E, 0x00])))
    if cut:
        frames.pop()
    direct, exc = feed(IsoTpStateMachine([IDS[0], IDS[1]]), frames)
    text = render(frames, fmt)
    tag = fmt
    if noise:  # lines that are not frames (blank, comments, empty and remote frames) between the frames are skipped
        lines = text.splitlines()
        mixed: List[str] = []
        for k, ln in enumerate(lines):
            mixed.append(ln)
            mixed.append(NOISE[k % len(NOISE)])
        text = "\n".join(mixed) + "\n"
        tag = fmt + "+noise"
    if cut:
        text = text.rstrip("\n") if not noise else "\n".join(text.splitlines()[:-1])  # (the last line is the last frame)
        tag += "+no-final-newline"
    part.count("text_streams")
    case = {"mode": "text", "tx_dl": tx_dl, "lens": list(lens), "fmt": fmt, "noise": noise, "cut": cut}
    try:
        with contextlib.redirect_stderr(io.StringIO()):
            via_text = [(i, bytes(t)) for i, t in drive_async(IsoTpStateMachine([IDS[0], IDS[1]]).read_telegrams(io.StringIO(text)))]
    except Exception as e:  # noqa
        part.violation(f"C12/text/{tag}/raises", case, f"{type(e).__name__}: {e}")
        return part
    part.add("nontrivial", ("text", tag, tx_dl, tuple(size_class(n, tx_dl) for n in lens)))
    if exc is None and via_text != direct:
        part.violation(f"C12/text/{tag}/differs-from-frames", case,
                       f"text: {[(hex(i), len(t)) for i, t in via_text]} frames: {[(hex(i), len(t)) for i, t in direct]}")
    return part


class FakeBus:

    def __init__(self) -> None:
        self.sent: List[Tuple[int, bytes]] = []

    def send(self, msg: Any, timeout: Any = None) -> None:
        self.sent.append((msg.arbitration_id, bytes(msg.data)))


def active_unit(unit: Tuple[Tuple[Tuple[str, ...], ...], int]) -> Part:
    """(e) one fixed round-robin and one sequential schedule per combo through IsoTpActiveDecoder."""
    from odxtools.isotp_state_machine import IsoTpActiveDecoder
    combo, padding = unit
    part = Part()
    scripts = scripts_for(combo)
    n = len(combo)
    tx_ids = [0x7E0, 0x7E1, 0x18DA10F1][:n]
    for sched in ("sequential", "round-robin", "sequential/ids-descending", "round-robin/ids-descending", "sequential/via-snoop", "round-robin/via-snoop"):
        bus = FakeBus()
        if sched.endswith("descending"):  # the pairing of receive and transmit IDs is by position, whatever their order
            dec = IsoTpActiveDecoder(bus, list(reversed(IDS[:n])), list(reversed(tx_ids)), padding_size=padding)  # type: ignore[arg-type]
        elif sched.endswith("via-snoop"):  # the decoder `odxtools snoop --active` builds around the active decoder
            from odxtools.cli.snoop import init_verbose_state_machine
            with contextlib.redirect_stdout(io.StringIO()):
                dec = init_verbose_state_machine(IsoTpActiveDecoder, can_bus=bus, can_rx_ids=list(IDS[:n]), can_tx_ids=tx_ids, padding_size=padding)
        else:
            dec = IsoTpActiveDecoder(bus, list(IDS[:n]), tx_ids, padding_size=padding)  # type: ignore[arg-type]
        order: List[Tuple[int, bytes]] = []
        if sched.startswith("sequential"):
            for i in range(n):
                order += [(i, f) for f in scripts[i][0]]
        else:
            pos = [0] * n
            while any(pos[i] < len(scripts[i][0]) for i in range(n)):
                for i in range(n):
                    if pos[i] < len(scripts[i][0]):
                        order.append((i, scripts[i][0][pos[i]]))
                        pos[i] += 1
        out: List[List[bytes]] = [[] for _ in range(n)]
        case = {"mode": "active", "combo": [list(c) for c in combo], "padding": padding, "schedule": sched}
        part.count("active_decoder_runs")
        part.add("nontrivial", ("active", combo, padding, sched))
        for i, f in order:
            before = len(bus.sent)
            try:
                with contextlib.redirect_stdout(io.StringIO()):  # (the snoop-built decoder narrates every frame)
                    got_now = list(dec.decode_rx_frame(IDS[i], f))
                for c, t in got_now:
                    out[IDS.index(c)].append(bytes(t))
            except Exception as e:  # noqa
                part.violation("C12/active/raises", case, f"{type(e).__name__}: {e}")
                break
            new = bus.sent[before:]
            if f[0] >> 4 == 1:
                part.count("first_frames_answered_checked")
                ok = any(cid == tx_ids[i] and len(d) >= 3 and d[0] == 0x30 for cid, d in new)
                if not ok:
                    part.violation("C12/active/first-frame-not-answered", case,
                                   f"first frame on {IDS[i]:#x}: sent {[(hex(c), fh(d)) for c, d in new]}")
                if padding and any(len(d) < padding for _, d in new):
                    part.violation("C12/active/flow-control-not-padded", case, f"{[(hex(c), fh(d)) for c, d in new]}")
            for cid, d in new:
                if cid not in tx_ids:
                    part.violation("C12/active/sent-on-unknown-id", case, f"{cid:#x}")
        else:
            for i in range(n):
                if out[i] != scripts[i][1]:
                    part.violation("C12/active/wrong-telegrams", case, f"id {IDS[i]:#x}: {[len(t) for t in out[i]]}")
    return part


def active_len_unit(unit: Tuple[int, int]) -> Part:
    """(e') the active decoder on one telegram of a given length: every first frame is answered with clear-to-send,
    whatever the announced length up to the 12-bit maximum, and the telegram is reported."""
    from odxtools.isotp_state_machine import IsoTpActiveDecoder
    n, tx_dl = unit
    part = Part()
    bus = FakeBus()
    dec = IsoTpActiveDecoder(bus, [IDS[0]], [0x7E0])  # type: ignore[arg-type]
    payload = pattern(n, 3)
    got: List[bytes] = []
    case = {"mode": "active-len", "len": n, "tx_dl": tx_dl}
    part.count("active_decoder_runs")
    part.add("nontrivial", ("active-len", tx_dl, size_class(n, tx_dl)))
    for f in segment(payload, tx_dl, None):
        before = len(bus.sent)
        try:
            got += [bytes(t) for _, t in dec.decode_rx_frame(IDS[0], f)]
        except Exception as e:  # noqa
            part.violation("C12/active/raises", case, f"{type(e).__name__}: {e}")
            return part
        if f[0] >> 4 == 1:
            part.count("first_frames_answered_checked")
            new = bus.sent[before:]
            if not any(cid == 0x7E0 and len(d) >= 3 and d[0] == 0x30 for cid, d in new):
                part.violation("C12/active/first-frame-not-answered", case, f"length {n}: sent {[(hex(c), fh(d)) for c, d in new]}")
    if got != [payload]:
        part.violation("C12/active/wrong-telegrams", case, f"length {n}: {[len(t) for t in got]}")
    return part


# ---------------------------------------------------------------------------------------------
def lengths_for(tx_dl: int, quick: bool) -> List[int]:
    if not quick:
        return list(range(1, 4096))
    s = set(range(1, 301)) | {4094, 4095, 4000, 2048, 1024}
    # segment boundaries: SF limit, FF+k CF exact fits and +-1, sequence number wrap
    for k in range(0, 40):
        b = (tx_dl - 2) + k * (tx_dl - 1)
        s |= {b - 1, b, b + 1}
    return sorted(x for x in s if 1 <= x <= 4095)


def run(ctx: Ctx) -> None:
    q = ctx.quick
    ctx.bounds = {"lengths": "1..300 + segment boundaries + {1024,2048,4000,4094,4095}" if q else "1..4095 (all)",
                  "tx_dl": list(FD_SIZES), "paddings": [p[0] for p in PADS], "ids": [hex(i) for i in IDS],
                  "script_shapes": SHAPES, "interleaving": "all interleavings (BFS to fixpoint) of the scripts of 2 and 3 IDs, "
                  "FC budget per ID and foreign-frame budget at every point"}
    ctx.rule = ("(a) every (length, frame size, padding) in the bound; (b) all telegram-shape sequences of length 2..3 per ID; "
                "(c) BFS over all interleavings per script combination; (d) text rendering in 2 formats; (e) active decoder. "
                "non-trivial = distinct (frame size, padding, size class, frame count mod 16) / script combinations")
    ctx.assumptions = ["normal addressing; telegram lengths 1..4095 (12-bit FF length)",
                       "CAN FD frames longer than 8 bytes are padded to a valid DLC",
                       "the CAN-bus (socket) branch of read_telegrams is not driven; the text branch and the frame API are"]
    # (a)
    units: List[Any] = []
    for tx_dl in FD_SIZES:
        L = lengths_for(tx_dl, q)
        chunk = 64 if q else 128
        # interleave long and short lengths across chunks for balance
        for c in range(0, len(L), chunk):
            units.append((tx_dl, L[c:c + chunk]))
    pmap(ctx, single_unit, units)
    # (b)
    reps = {8: [5, 7, 8, 13, 20, 118, 119], 12: [7, 8, 10, 11, 30], 64: [7, 8, 62, 63, 200]}
    sunits = []
    for tx_dl, lens in reps.items():
        for a in lens:
            for b in lens:
                sunits.append((tx_dl, (a, b)))
                if not q or tx_dl == 8:
                    for c in lens[:4]:
                        sunits.append((tx_dl, (a, b, c)))
    for tx_dl, lens in reps.items():  # periodic traffic: identical telegrams back to back
        for a in lens:
            sunits.append((tx_dl, (a, a), "same"))
            sunits.append((tx_dl, (a, a, a), "same"))
    pmap(ctx, seq_unit, sunits, chunksize=8)
    # (c)
    shapes = list(SHAPES)[:4]
    combos: List[Tuple[Tuple[Tuple[str, ...], ...], int, int]] = []
    for a in shapes:
        for b in shapes:
            combos.append((((a,), (b,)), 1, 2))
            for c in shapes:
                if q and "FF+17CF" in (a, b, c) and (a, b, c).count("FF+17CF") > 1:
                    continue
                combos.append((((a,), (b,), (c,)), 0 if q else 1, 1))
    # two telegrams per ID on two IDs
    for a in shapes[:3]:
        for a2 in shapes[:3]:
            for b in shapes[:3]:
                for b2 in shapes[:3]:
                    if q and (a, a2) > (b, b2):
                        continue
                    combos.append((((a, a2), (b, b2)), 1, 2 if (a, a2, b, b2).count("SF") >= 2 else 1))
    # IDs that use different frame sizes at the same time (classic next to CAN FD)
    for a in ("FD3@64", "FD2@12"):
        for b in ("FF+2CF", "FF+1CF", "SF"):
            combos.append((((a,), (b,)), 1, 1))
            combos.append((((b,), (a,)), 1, 1))
    combos.append(((("FD3@64",), ("FF+2CF",), ("FD2@12",)), 0, 1))
    if not q:
        combos.append(((("FF+17CF", "SF"), ("SF", "FF+17CF")), 1, 1))
        combos.append(((("FF+2CF", "FF+2CF", "SF"), ("FF+1CF", "SF", "FF+2CF")), 1, 1))
    pmap(ctx, interleave_unit, combos)
    # (d)
    tunits = []
    for fmt in ("normal", "log"):
        for tx_dl in (8, 12, 64):
            for lens in ((5,), (20,), (5, 20), (118, 7, 30), (7, 8, 63, 4095 if not q else 300)):
                tunits.append((tx_dl, lens, fmt, False))
                tunits.append((tx_dl, lens, fmt, True))
                tunits.append((tx_dl, lens, fmt, False, True))
                tunits.append((tx_dl, lens, fmt, True, True))
    pmap(ctx, text_unit, tunits)
    # (e)
    aunits = []
    for a in shapes:
        aunits.append((((a,),), 0))
        for b in shapes:
            aunits.append((((a,), (b,)), 0))
            aunits.append((((a, b), (b, a)), 8))
    pmap(ctx, active_unit, aunits, chunksize=4)
    alens = sorted({8, 9, 255, 256, 257, 4093, 4094, 4095} | (set(range(1, 4096, 97)) if q else set(range(1, 4096, 7))))
    pmap(ctx, active_len_unit, [(n, tx_dl) for n in alens for tx_dl in (8, 64)], chunksize=8)
    c = ctx.counts
    c["evaluations"] = c.get("single_id_telegrams", 0) + c.get("telegram_sequences", 0) + c.get("interleaving_transitions", 0) + \
        c.get("text_streams", 0) + c.get("active_decoder_runs", 0)
    c["traces_validated_against_impl"] = c["evaluations"]
    ctx.sample({"mode": "single", "tx_dl": 8, "len": 20, "pad": "AA", "frames": [fh(f) for f in segment(pattern(20, 8), 8, 0xAA)]})
    ctx.sample({"mode": "single", "tx_dl": 12, "len": 9, "frames": [fh(f) for f in segment(pattern(9, 12), 12, None)]})
    ctx.sample({"mode": "interleave", "combo": [["FF+1CF"], ["SF"], ["FF+17CF"]], "fc_budget": 1, "foreign_budget": 1})
    ctx.sample({"mode": "text", "text": render([(IDS[0], f) for f in segment(pattern(9, 1), 8, None)], "log")})
    ctx.guard("all four size classes seen", len({x[2] for x in ctx.sets["nontrivial"] if len(x) == 4 and x[0] in FD_SIZES}) >= 4)
    ctx.guard("interleaving lattices explored", c.get("interleaving_harnesses", 0) >= 50)
    ctx.guard("first frames answered checked", c.get("first_frames_answered_checked", 0) >= 20)
    # the nontrivial set holds tuples; convert to digests for JSON
    ctx.sets["nontrivial"] = {digest(x) for x in ctx.sets["nontrivial"]}
    ctx.sets.pop("lattice_sizes", None)


def replay(case: Any) -> List[Tuple[str, str]]:
    mode = case["mode"]
    if mode == "single":
        p = single_unit((case["tx_dl"], [case["len"]]))
    elif mode == "seq":
        p = seq_unit((case["tx_dl"], tuple(case["lens"]), "same" if case.get("same") else "distinct"))
    elif mode == "text":
        p = text_unit((case["tx_dl"], tuple(case["lens"]), case["fmt"], case.get("noise", False), case.get("cut", False)))
    elif mode == "active-len":
        p = active_len_unit((case["len"], case["tx_dl"]))
    elif mode == "active":
        p = active_unit((tuple(tuple(c) for c in case["combo"]), case["padding"]))
    else:
        combo = tuple(tuple(c) for c in case["combo"])
        s = IlState(combo, case["fc"], case["foreign"])
        out: List[Tuple[str, str]] = []
        for ev in case["schedule"]:
            s = s.step((ev[0], ev[1]))
            out.extend(s.problems)
        return out
    return [(k, v[2]) for k, v in p.viol.items()]
