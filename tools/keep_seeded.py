#!/venv/bin/python
"""tools/keep_seeded.py <worktree> <k> <name> <PROP> [more props] : evaluate <worktree>/seeded/<k> and keep it as
/verif/seeded/<name>/ (patch.diff, demo.py, meta.json extended with what was run and the verdicts)."""
import json, os, shutil, subprocess, sys
V = os.path.dirname(os.path.dirname(os.path.abspath(__file__)))
wt, k, name = sys.argv[1:4]
props = sys.argv[4:]
src = os.path.join(wt, "seeded", k)
r = subprocess.run(["/venv/bin/python", os.path.join(V, "tools", "seeded_eval.py"), src] + props, capture_output=True, text=True)
out = r.stdout[r.stdout.index("{"):]
ev = json.loads(out)
dst = os.path.join(V, "seeded", name)
os.makedirs(dst, exist_ok=True)
for f in sorted(os.listdir(src)):  # patch.diff, demo.py and whatever helper modules the demo imports
    if f != "meta.json" and os.path.isfile(os.path.join(src, f)) and not f.endswith(".pyc"):
        shutil.copy(os.path.join(src, f), os.path.join(dst, f))
meta = json.load(open(os.path.join(src, "meta.json")))
meta["evaluation"] = {
    "ran": ["patch applied to a scratch copy of /repo (HEAD %s)" % subprocess.run(["git", "-C", "/repo", "log", "--format=%h", "-1"], capture_output=True, text=True).stdout.strip(),
            "repository test suite", "demo.py on the clean tree and on the changed tree"] + [f"VERIF_REPO=<copy> ./run {p} quick" for p in props],
    "tests_pass_with_change": ev.get("tests_pass"), "demo_clean_exit": ev.get("demo_clean_exit"), "demo_changed_exit": ev.get("demo_mutant_exit"),
    "checks": {p: {"exit": c["exit"], "violations": c["violations"], "keys": [x.split("key=")[1].split(" ::")[0] for x in c["first"]]} for p, c in ev.get("checks", {}).items()},
}
json.dump(meta, open(os.path.join(dst, "meta.json"), "w"), indent=1)
ok = ev.get("tests_pass") and ev.get("demo_clean_exit") == 0 and ev.get("demo_mutant_exit") not in (0, None)
print(name, "KEPT" if ok else "KEPT-BUT-UNCONFIRMED", {p: (c["exit"], c["violations"]) for p, c in ev.get("checks", {}).items()})
