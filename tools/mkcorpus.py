#!/venv/bin/python
"""tools/mkcorpus.py <PROP> <key> <name> '<seq json: [[template, mode],..]>' '<values python literal>' [kind] [request hex]
Writes corpus/<PROP>/<name>.json for a composed program of the codec space."""
import ast, json, os, sys
V = os.path.dirname(os.path.dirname(os.path.abspath(__file__)))
sys.path.insert(0, V)
from odxmodel import space
from odxmodel.harness import jval
from checks.codec_common import prog_case
prop, key, name, seq, values = sys.argv[1:6]
kind = sys.argv[6] if len(sys.argv) > 6 else "REQUEST"
req = bytes.fromhex(sys.argv[7]) if len(sys.argv) > 7 else None
prog = space.build_program([tuple(x) for x in json.loads(seq)], kind=kind, request=req)
case = {"program": prog_case(prog), "values": jval(ast.literal_eval(values))}
os.makedirs(os.path.join(V, "corpus", prop), exist_ok=True)
json.dump({"property": prop, "key": key, "case": case}, open(os.path.join(V, "corpus", prop, name + ".json"), "w"), indent=1)
print("written", name)
