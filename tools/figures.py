#!/venv/bin/python
"""tools/figures.py: replace the block between <!-- FIGURES-BEGIN/END --> in DESIGN.md by a table of the numbers in the
current evidence files (whatever tier wrote them last)."""
import json, os, re
V = os.path.dirname(os.path.dirname(os.path.abspath(__file__)))
rows = ["| id | tier of the evidence file | evaluations | states | transitions | distinct non-trivial | known findings reproduced | wall s |", "|---|---|---|---|---|---|---|---|"]
for n in range(1, 19):
    p = os.path.join(V, "evidence", f"C{n:02d}.json")
    if not os.path.exists(p):
        continue
    e = json.load(open(p)); c = e["coverage"]
    rows.append(f"| C{n:02d} | {e['tier']} | {c.get('evaluations')} | {c.get('states', '-')} | {c.get('transitions', '-')} | {c.get('distinct_nontrivial')} | "
                f"{len(c.get('known_findings_reproduced', []))} | {e.get('wall_s')} |")
block = "<!-- FIGURES-BEGIN -->\n" + "\n".join(rows) + "\n<!-- FIGURES-END -->"
d = os.path.join(V, "DESIGN.md"); s = open(d).read()
if "<!-- FIGURES-BEGIN -->" in s:
    s = re.sub(r"<!-- FIGURES-BEGIN -->.*?<!-- FIGURES-END -->", lambda m: block, s, flags=re.S)
    open(d, "w").write(s)
print("\n".join(rows))
