#!/venv/bin/python
"""tools/seeded_one.py <name>: re-evaluate one kept seeded defect and print one verdict line (used by the parallel regression)."""
import json, os, subprocess, sys
V = os.path.dirname(os.path.dirname(os.path.abspath(__file__)))
name = sys.argv[1]
prop = name.split("-")[0]
extra = {"C06-4": ["C17"], "C02-11": ["C04"], "C13-15": ["C12"]}.get(name, [])
r = subprocess.run(["/venv/bin/python", os.path.join(V, "tools", "seeded_eval.py"), os.path.join(V, "seeded", name), prop] + extra,
                   capture_output=True, text=True)
try:
    res = json.loads(r.stdout[r.stdout.index("{"):])
    caught = any(v["exit"] == 1 for v in res.get("checks", {}).values())
    ok = res.get("patch_applies") and res.get("tests_pass") and res.get("demo_clean_exit") == 0 and res.get("demo_mutant_exit") not in (0, None) and caught
    print(name, "OK" if ok else "PROBLEM", res.get("patch_applies"), res.get("tests_pass"), res.get("demo_clean_exit"), res.get("demo_mutant_exit"),
          {k: (v["exit"], v["violations"]) for k, v in res.get("checks", {}).items()}, flush=True)
except Exception as e:  # noqa
    print(name, "PROBLEM eval failed", e, r.stderr[-200:], flush=True)
