#!/bin/sh
# tools/seeded_regress.sh [name-prefix] -- re-evaluate every kept seeded defect against its property's quick check;
# prints one line per defect: name, tests_pass, demo clean/changed exit, check exit, #violation keys
cd "$(dirname "$0")/.." || exit 2
for d in seeded/${1:-}*/; do
  n=$(basename "$d"); p=${n%-*}
  /venv/bin/python tools/seeded_eval.py "$d" "$p" 2>/dev/null | grep -v condarc | /venv/bin/python -c "
import json,sys
r=json.load(sys.stdin); c=r['checks']['$p']
print('$n', 'tests', r.get('tests_pass'), 'demo', r.get('demo_clean_exit'), r.get('demo_mutant_exit'), 'check-exit', c['exit'], 'keys', c['violations'], 'CAUGHT' if c['exit']==1 else 'MISSED', c['err'][-120:])"
done
