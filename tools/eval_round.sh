#!/bin/sh
# tools/eval_round.sh <worktree prefix, e.g. /tmp/w2_> <offset, e.g. 3> <ids...>: evaluate seeded/1..3 of each worktree
# against the property's quick check and keep them as <ID>-<k+offset>
PFX="$1"; OFF="$2"; shift 2
cd "$(dirname "$0")/.." || exit 2
for id in "$@"; do
  for k in 1 2 3; do
    [ -d "$PFX$id/seeded/$k" ] || continue
    tools/keep_seeded.py "$PFX$id" $k "$id-$((k+OFF))" "$id" 2>&1 | grep -v condarc
  done
done
