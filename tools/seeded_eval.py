#!/venv/bin/python
"""tools/seeded_eval.py <seeded dir> [<PROP> ...]  -- evaluate one seeded defect:
copy /repo to /var/tmp, apply patch.diff, run the repo's tests, the demo, and the given checks' quick tier
against the copy (VERIF_REPO); print a JSON verdict; remove the copy."""
import json, os, shutil, subprocess, sys, time
V = os.path.dirname(os.path.dirname(os.path.abspath(__file__)))
d = os.path.abspath(sys.argv[1])
props = sys.argv[2:]
meta = json.load(open(os.path.join(d, "meta.json"))) if os.path.exists(os.path.join(d, "meta.json")) else {}
if not props:
    props = [meta.get("property")] if isinstance(meta.get("property"), str) else meta.get("property", [])
copy = f"/var/tmp/seed_{os.getpid()}"
shutil.rmtree(copy, ignore_errors=True)
shutil.copytree("/repo", copy, ignore=shutil.ignore_patterns(".git", "__pycache__", "*.egg-info"))
res = {"dir": d, "props": props}
try:
    r = subprocess.run(["patch", "-p1", "-s", "-i", os.path.join(d, "patch.diff")], cwd=copy, capture_output=True, text=True)
    res["patch_applies"] = r.returncode == 0
    if r.returncode != 0:
        res["patch_err"] = (r.stdout + r.stderr)[-500:]
    else:
        env = dict(os.environ, PYTHONPATH=copy)
        r = subprocess.run(["/venv/bin/python", "-m", "pytest", "-q", "-p", "no:cacheprovider", "-x"], cwd=copy, env=env, capture_output=True, text=True)
        res["tests"] = r.stdout.strip().splitlines()[-1] if r.stdout.strip() else r.stderr[-200:]
        res["tests_pass"] = r.returncode == 0
        demo = next((f for f in ("demo.py", "demo_test.py") if os.path.exists(os.path.join(d, f))), None)
        if demo:
            # the demos were written inside <worktree>/seeded/<k>/ and may locate files of the tree relative to themselves
            # (../../examples): run them from the same relative place in the tree under test
            mdir = os.path.join(copy, "seeded", "k")
            shutil.copytree(d, mdir)
            r = subprocess.run(["/venv/bin/python", os.path.join(mdir, demo)], cwd=copy, env=env, capture_output=True, text=True)
            res["demo_mutant_exit"] = r.returncode
            shutil.rmtree(os.path.join(copy, "seeded"), ignore_errors=True)
            clean = f"/var/tmp/seedclean_{os.getpid()}"
            shutil.rmtree(clean, ignore_errors=True)
            os.makedirs(clean)
            for entry in os.listdir("/repo"):  # a view of the clean tree (symlinks) with the seed placed as in the worktree
                if entry not in (".git", "seeded"):
                    os.symlink(os.path.join("/repo", entry), os.path.join(clean, entry))
            cdir = os.path.join(clean, "seeded", "k")
            shutil.copytree(d, cdir)
            r2 = subprocess.run(["/venv/bin/python", os.path.join(cdir, demo)], cwd=clean, env=dict(os.environ, PYTHONPATH="/repo"), capture_output=True, text=True)
            res["demo_clean_exit"] = r2.returncode
            shutil.rmtree(clean, ignore_errors=True)
        res["checks"] = {}
        for p in props:
            t = time.time()
            r = subprocess.run(["./run", p, "quick"], cwd=V, env=dict(os.environ, VERIF_REPO=copy, VERIF_NO_EVIDENCE="1"), capture_output=True, text=True)
            lines = [l for l in r.stdout.splitlines() if l.startswith("VIOLATION")]
            res["checks"][p] = {"exit": r.returncode, "violations": len(lines), "first": [l[:260] for l in lines[:3]], "wall": round(time.time() - t, 1),
                                "err": r.stderr[-300:] if r.returncode == 2 else ""}
finally:
    shutil.rmtree(copy, ignore_errors=True)
print(json.dumps(res, indent=1))
