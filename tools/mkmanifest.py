#!/venv/bin/python
"""Regenerates /verif/MANIFEST.json from the table below (one entry per implemented check)."""
import json, os, subprocess, sys
V = os.path.dirname(os.path.dirname(os.path.abspath(__file__)))
sys.path.insert(0, V)
ALL = [f"C{i:02d}" for i in range(1, 19)]

CODEC_NOTE = "Trusted: the reference interpreter odxmodel/refodx.py (appendix C of DESIGN.md) and the ODX emitter; constructs outside the envelope are skipped and counted as dont_care. Wider than 12-bit value domains are covered by boundary alphabets; programs deeper than 4 parameters / nesting deeper than structure-in-structure are outside the bound."
CHECKS = {
 "C01": dict(cat="model_checking", tech="exhaustive enumeration of the codec program space (atomic types + breadth-first parameter sequences to depth 3/4) x value alphabets on the real encoder/decoder; independent reference interpreter supplies complete(v)",
   text="Every program of the shared codec space (layer A: 7 integer kinds x 1..64 bits x 3 byte orders x 8 bit positions, masks, floats, strings, MIN-MAX, LEADING-LENGTH, PARAM-LENGTH; layer B: 8-bit compu programs of every category; layer C: all parameter sequences to depth 2 over 61 templates x 3 position modes, depth 3 over 18, depth 4 over 6, explicit far/zero positions, response programs inside services, one program per predefined SYSPARAM kind) is emitted as ODX XML, loaded by the real loader and run with all values of small domains / boundary sets: decode(encode(v)) must equal the completed assignment computed by the reference interpreter and consume the whole PDU.",
   note=CODEC_NOTE, ref="4, 5/C01"),
 "C02": dict(cat="model_checking", tech="exhaustive enumeration of the codec program space x values, byte-for-byte comparison with an independent bit-level ODX interpreter, on both bitstruct backends (second process with bitstruct.c unimportable)",
   text="For every program and every assignment the reference accepts: identical PDU bytes, identical decode of the reference-built PDU, overlap warning iff the reference sees a bit claimed twice (dedicated overlap programs included); the composition units are run again after a second Database.refresh(); the complete exploration is repeated with the pure-Python bit-packing backend. Every unit runs in a forked child of a pristine worker (state the library shares between objects cannot leak between units).",
   note=CODEC_NOTE, ref="4, 5/C02"),
 "C03": dict(cat="model_checking", tech="exhaustive enumeration of reference-built canonical PDUs of the codec program space; decode then re-encode on the real implementation, directly and through DiagLayer.decode / DiagService.encode_request",
   text="Every distinct PDU that the reference interpreter builds from every value assignment of every program (all internal values of small types) is decoded by the real decoder and the decoded dictionary is encoded again: the bytes must be identical.",
   note=CODEC_NOTE + " Programs with NRC-CONST parameters are excluded (their value cannot be set by design). The compu-level inverse law is checked by C07.", ref="4, 5/C03"),
 "C05": dict(cat="model_checking", tech="exhaustive enumeration of byte strings (all prefixes, single-byte substitutions, insertions/deletions of valid PDUs; all strings up to length 3/4 over the program's byte alphabet) against every program and every somersault layer",
   text="For every program of the codec space and every layer of the shipped somersault database, every byte string of the bounded space is decoded through Request/Response.decode, DiagLayer.decode, decode_response and DiagService.decode_message: the call returns or raises DecodeError, nothing else escapes, it terminates, and a PDU on which the reference decoder runs out of bytes is rejected. The same exploration is repeated with strict mode off (there only 'no foreign exception, terminates' is judged).",
   note=CODEC_NOTE + " Random strings of the property's quantifier are replaced by the exhaustive bounded sets; strings longer than 4 bytes are reached only as mutations of valid PDUs.", ref="4, 5/C05"),
 "C08": dict(cat="model_checking", tech="exhaustive enumeration of programs x value assignments x all subsets of supplied parameters; static metadata compared with actual encodings",
   text="For every program: the reported static bit length equals the size of every successful encoding, the reported constant prefix is a prefix of every PDU, required parameters are exactly those whose omission fails (all subsets of up to 4 supplied parameters; a valid assignment that leaves out only parameters reported as not required must encode), free parameters are exactly the settable ones and their supplied values are what the PDU carries; the structure-level accessors agree with the parameter flags.",
   note=CODEC_NOTE, ref="4, 5/C08"),
 "C04": dict(cat="model_checking", tech="exhaustive enumeration of valid and invalid value assignments (all of [-2^n, 2^(n+1)] for small n, boundary sets, wrong types, every single-fault neighbour of valid assignments of composed programs) on the real encoder, both backends",
   text="For every assignment the encoder either raises an odxtools OdxError subclass or returns a PDU that decodes back to the requested values; any foreign exception type or silent wrap/truncate/pad/drop is a violation. Covers layers A, B (incl. non-finite floats) and C to depth 3 (quick: depth 3 only for explicitly positioned programs and responses).",
   note=CODEC_NOTE + " Out-of-mask values of BIT-MASK types, values for RESERVED parameters, extra members of environment-data dictionaries are outside the property's envelope.", ref="4, 5/C04"),
 "C12": dict(cat="model_checking", tech="exhaustive enumeration of (length x frame size x padding) + explicit-state BFS over all frame interleavings of up to 3 CAN IDs on the real IsoTpStateMachine, reference ISO 15765-2 segmenter as oracle",
   text="Every telegram length 1..4095 (quick: 1..300 + all segment boundaries) x 8 classic/FD frame sizes x 4 padding modes is segmented by an independent reference segmenter and fed to the real reassembler; all interleavings of the frame scripts of 2-3 IDs (SF, FF+1CF, FF+2CF, FF+17CF with sequence-number wrap, two telegrams per ID) with flow-control and foreign-ID frames insertable at every point are explored as a state graph whose canonical state includes the real object's per-ID buffers, with the safety oracle 'reported == sent so far' in every state; both candump text formats (also with non-frame lines between the frames) and the active decoder's flow-control answers (every telegram length class, receive/transmit ID lists in any order, the decoder built by the snoop tool) are checked on the same streams; identical telegrams back to back.",
   note="Trusted: the reference segmenter (normal addressing, 12-bit FF length). Not driven: the socket branch of read_telegrams. More than 3 concurrent IDs / more than 3 telegrams per ID are outside the bound.", ref="5/C12"),
 "C13": dict(cat="fault_enumeration", tech="deviation-bounded exhaustive fault injection (0/1/2 faults at every position) + explicit-state BFS to the fixpoint over a 29-frame alphabet on the real IsoTpStateMachine and the two decoders the snoop tool builds, justification monitor as oracle",
   text="Eight base streams (one and two IDs, two transfers on one ID, a 42-frame transfer) x every placement of 0, 1 and 2 faults out of 12 kinds (drop, duplicate, swap, truncate, every PCI nibble, every sequence number, stray CF, FC, cut FC, single frame inside the transfer, empty frame), every faulty stream also as candump text in both formats and as a log cut inside the last byte, each followed by well-formed probe transfers; plus a BFS over all sequences of a 29-frame alphabet (incl. malformed frames) to the fixpoint of (implementation state, monitor state) with the probes run from every reached state. Oracle: no exception, every reported telegram justified by the delivered history, each first frame yields at most one telegram, probe reassembled exactly once, IDs whose frames carry no fault get exactly their telegrams.",
   note="Trusted: the justification monitor (accepts both ISO reactions to a sequence error). Callback invocations are recorded, not judged. Three or more simultaneous faults are outside the bound.", ref="5/C13"),
 "C16": dict(cat="model_checking", tech="explicit-state BFS over all operation histories of the real NamedItemList (depth 4/5), reference list + name invariants on every state",
   text="Every history of append/insert/extend/remove/pop/clear/copy/copy.copy/deepcopy/pickle operations up to depth 4 (quick) / 5 (thorough) over a 10-item alphabet with equal, same-named, suffixed-name, keyword (lower and mixed case), digit-leading, method-like and dunder short names, incl. refused items and named-item-list / generator arguments is executed on the real class; each reached state is compared with a plain list and checked for the name invariants of the property (all accessors of the name view agree; names not in use resolve nowhere). Exhaustive within the bound; states/transitions are counted by the explorer.",
   note="Trusted: Python list semantics as reference; the alphabet (an item object is never inserted twice; +=, slicing, sort are outside the property). Beyond the depth bound nothing is claimed.", ref="5/C16"),
}

CHECKS["C18"] = dict(cat="exploration", tech="exhaustive enumeration of every single edit (add/delete/rename service; six attribute edits of every parameter of every request/response) of every base database, applied to the ODX XML; metamorphic classification of the comparison tool's report against an independent XML-level reference",
   text="Every (database x edit kind x target) combination over somersault and three generated databases is materialised as real ODX files, loaded twice through the real loader and compared in both roles with compare_databases / compare_diagnostic_layers; the report must contain exactly that kind of change for exactly that service, self-comparison must be empty, and print_dl_metrics must show the independently counted numbers of services, DOPs and communication parameters.",
   note="Trusted: odxmodel/refcompare.py (XML-level reference of inheritance, prefixes, counts) and the edit alphabet. Combined edits are outside the bound (single edits only).", ref="5/C18")
CHECKS["C14"] = dict(cat="model_checking", tech="exhaustive enumeration of candidate lists x all deterministic ECU response functions x cache on/off, the generator-based matcher driven as a state machine (each yielded request is a scheduling point answered by the enumerated ECU), reference first-match evaluator",
   text="A pool of candidate layers (0..2 patterns, 1..2 matching parameters, 5 response layouts x 5 DOP types, own identification services, base and ECU variants) is loaded once through the real loader; every candidate list up to length 2-4 is run against every function from identification requests to {value 1, value 2, negative response, undecodable bytes} with and without cache on a fresh VariantMatcher; verdict, has_match/matching_variant consistency, cache independence, request discipline are compared with the reference.",
   note="Trusted: odxmodel/refmatcher.py. Request order and the number of requests without cache are not judged. Lists longer than 4 are outside the bound.", ref="5/C14")
CHECKS["C10"] = dict(cat="exploration", tech="exhaustive enumeration of reference scenarios (reference kind x addressing form x target situation x document order), one small database per scenario loaded through the real loader, marker-based resolution model",
   text="43 ODXLINK reference kinds x 10 addressing forms x every subset of defining/importing layers x document orders, layer/comparam-document references, and 14 SNREF kinds x owner x defining-layer subsets x NOT-INHERITED flags incl. retarget_snrefs: the resolved attribute must carry the marker the reference model predicts, or strict-mode loading must fail where it says so (three-valued).",
   note="Trusted: odxmodel/reflinks.py (fragment and import semantics as adjudicated in DESIGN.md 5/C10). Duplicate IDs inside one deciding fragment and SNREFs into imported layers are DON'T-CARE.", ref="5/C10")
CHECKS["C17"] = dict(cat="model_checking", tech="exhaustive enumeration of all operation sequences (length <= 3/4) over a menu of mode-sensitive operations x every mode assignment, flipping the process-wide flag at run time; outcomes compared with fresh-process baselines; plus the codec corpus in both modes",
   text="Every sequence of up to 3 (4) operations from an 11-operation menu (one odxraise-based problem per module family: unknown parameter, out-of-range value, invalid UTF-8, unknown DTC, unknown MUX case, PHYS-CONST mismatch, wrong static-field count, too short MIN-MAX value, dangling reference, unresolvable SNREF, plus a valid control) under every assignment of {strict, lenient} to the steps is executed in one process that flips odxtools.exceptions.strict_mode; each step must behave like a fresh process in that mode; menu problems must be errors in strict and downgraded in lenient mode; every strict success of the codec corpus must give the identical result in lenient mode.",
   note="Trusted: the menu's classification as downgradable (read from the code). Not every odxraise call site is covered (stated in DESIGN.md section 6).", ref="5/C17")
CHECKS["C07"] = dict(cat="exploration", tech="exhaustive enumeration of compu-method configurations (8 categories x type pairs x coefficient/limit/interval menus, 1..4 scales) x every value of 8-bit internal domains + boundary sets, compared with exact rational arithmetic (fractions.Fraction)",
   text="8 k (quick) / 32 k (thorough) compu methods are emitted as ODX, loaded through the real loader and every conversion / validity predicate is compared with an exact three-valued reference: forward and inverse formulas with nearest-integer rounding, OPEN/CLOSED/INFINITE limits, validity of images, refusal outside the range, round trip x->p->x on injective methods, encodability of monotone continuous piecewise-linear methods.",
   note="Trusted: odxmodel/refcompu.py. Exact rounding ties, float comparisons below 1e-9 relative, overlapping TEXTTABLE ranges and one-sided numeric scales are DON'T-CARE.", ref="5/C07")
CHECKS["C15"] = dict(cat="model_checking", tech="exhaustive enumeration of layer hierarchies (all connected DAGs over the five layer types up to 3/4 layers) x all placements of simple/complex comparam instances with/without protocol qualifier and omitted (sub-)values; reference resolution model",
   text="For every hierarchy and every placement vector the databases are emitted as ODX, loaded through the real loader, and comparam_refs, get_comparam (name x protocol incl. Protocol objects), get_value/get_subvalue and 13 typed accessors are compared on every layer with the reference: closest layer wins per (parameter, protocol), protocol-specific before generic, defaults of the specification as fallback, numeric content of the typed accessors.",
   note="Trusted: odxmodel/refcomparam.py. A generic instance in a strictly closer layer versus a protocol-specific one farther away is DON'T-CARE; unrelated parents offering different instances: any offered one is accepted.", ref="5/C15")
CHECKS["C06"] = dict(cat="model_checking", tech="exhaustive enumeration of all ordered service sets (1..2/3 of 12 shapes x 3 global-negative-response configurations) x all byte strings up to length 3/4 over the layer's byte alphabet + all own encodings, three-valued reference dispatcher",
   text="Every layer of the bounded space is emitted, loaded through the real loader and every message of the bounded space is decoded with DiagLayer.decode / decode_response; reported (service, coding object) sets must contain every MUST entry and no MUST-NOT entry of the reference, DecodeError only if nothing must match, decoded parameter dictionaries equal the reference values, a response is found through its request, service_groups equals the reference for all 256 SIDs.",
   note="Trusted: odxmodel/refdispatch.py. Multiplicity of Messages, trailing bytes, non-prefix CODED-CONST mismatches and echoes straddling the prefix are MAY. One known finding (empty-prefix services are never candidates) is listed in KNOWN_FINDINGS.txt.", ref="5/C06")
CHECKS["C09"] = dict(cat="exploration", tech="exhaustive enumeration of layer hierarchies (every weakly connected DAG over the five layer types up to 3/5 layers, one per isomorphism class) x placements of same-named objects x every subset of NOT-INHERITED exclusions, in 11-19 object categories at once; independent value-inheritance model",
   text="Every hierarchy of the bounded space is emitted as ODX, loaded through the real loader (12 independent hierarchies per database) and for every layer and category the visible (short name -> marker) map is compared with the reference; strict-mode loading must fail exactly for unresolved equal-priority clashes between unequal objects; layer.decode finds a service exactly when it is visible; a parent's view is the same with and without its childless descendant.",
   note="Trusted: odxmodel/refinherit.py. The rank of ECU-SHARED-DATA among parents is three-valued (the run must be consistent with ONE reading; the implemented one is recorded in the evidence).", ref="5/C09")
CHECKS["C11"] = dict(cat="exploration", tech="exhaustive enumeration of single-field perturbations of every (dataclass, field) pair reachable in three base databases + 162 feature isolations of a generated kitchen-sink database, all archive member orders x 4 load entry points; identity oracle on dataclass graphs",
   text="For every (class, field) pair (1070 pairs in 109 classes) one perturbation per applicable kind is applied to the loaded object graph, the database is written with write_pdx_file, loaded back and compared field-wise; a second write must be byte-identical; canonical encode/decode of every service must agree; every member order x {load_pdx_file, load_directory, load_files} must give equal databases.",
   note="Trusted: odxmodel/refroundtrip.py (identity on dataclass graphs, admissibility rules for perturbations). Only attributes the parser reads count; derived fields and discriminators are not perturbed. Five known findings (DIAG-VARIABLE and DYN-DEFINED-SPEC writer macros) are listed in KNOWN_FINDINGS.txt.", ref="5/C11")
NOT_BUILT_REASON = "check not built yet in this revision of /verif (design in DESIGN.md section 5); not claimed"

def main():
    checks = []
    for pid in ALL:
        if pid not in CHECKS:
            continue
        c = CHECKS[pid]
        checks.append({
            "property_id": pid,
            "quick_cmd": f"./run {pid} quick",
            "thorough_cmd": f"./run {pid} thorough",
            "evidence_file": f"evidence/{pid}.json",
            "replay_cmd_template": "./replay {path}",
            "engine": "mcx",
            "level_claimed": {"category": c["cat"], "text": c["text"], "design_ref": c["ref"]},
            "level_note": c["note"],
            "technique": c["tech"],
        })
    hooks_commits = []
    m = {
        "version": 1,
        "setup_cmd": "./setup",
        "hooks": {
            "guard": "ODXTOOLS_VERIF",
            "enable": "no source hooks are needed: checks import odxtools from /repo's working tree (editable install; VERIF_REPO=<dir> overrides) and observe through public APIs and EncodeState/DecodeState subclasses",
            "baseline_off_cmd": "cd /repo && /venv/bin/python -m pytest -ra -q -p no:cacheprovider --timeout=900 --continue-on-collection-errors",
            "source_commits": hooks_commits,
            "add_only": True,
        },
        "engines": [
            {"name": "mcx", "path": "mcx/", "serves_properties": sorted(CHECKS), "kind_free_text": "hand-written bounded exhaustive explorer for Python: finite space combinators, explicit-state BFS with canonical-state deduplication over the real transition functions, deviation-bounded fault enumeration, 16 forked workers, evidence/findings/replay"},
            {"name": "odxmodel", "path": "odxmodel/", "serves_properties": sorted(CHECKS), "kind_free_text": "declarative ODX description language, ODX-XML emitter and independent reference models (bit-level interpreter, exact compu methods, ISO-TP segmenter, inheritance, dispatch)"},
        ],
        "checks": checks,
        "notes": "All checks: ./run <id> quick|thorough; exit 0 held, 1 VIOLATION line(s), 2 harness error. KNOWN_FINDINGS.txt lists recorded and fixed defects; corpus/<id>/ holds their replay cases.",
        "not_applicable": [{"property_id": p, "reason": NOT_BUILT_REASON} for p in ALL if p not in CHECKS],
    }
    json.dump(m, open(os.path.join(V, "MANIFEST.json"), "w"), indent=1)
    r = subprocess.run(["python3-vt", "-W", "ignore", "-c", "import json,jsonschema,sys; jsonschema.Draft202012Validator(json.load(open('/root/.vp/MANIFEST.schema.json'))).validate(json.load(open(sys.argv[1]))); print('MANIFEST valid')", os.path.join(V, "MANIFEST.json")])
    sys.exit(r.returncode)
main()
