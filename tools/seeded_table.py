#!/venv/bin/python
"""Prints a markdown table of /verif/seeded/*/meta.json (what each seeded defect is and which checks catch it)."""
import glob, json, os
V = os.path.dirname(os.path.dirname(os.path.abspath(__file__)))
print("| id | property | change | needs | suite passes | caught by (quick tier) |")
print("|---|---|---|---|---|---|")
for d in sorted(glob.glob(os.path.join(V, "seeded", "*"))):
    m = json.load(open(os.path.join(d, "meta.json")))
    ev = m.get("evaluation", {})
    caught = []
    for p, c in ev.get("checks", {}).items():
        if c["exit"] == 1:
            caught.append(f"{p} ({c['violations']} keys, e.g. `{c['keys'][0] if c['keys'] else ''}`)")
        else:
            caught.append(f"{p}: not caught (exit {c['exit']})")
    def cell(s): return str(s).replace("|", "\\|").replace("\n", " ")[:260]
    print(f"| {os.path.basename(d)} | {m.get('property')} | {cell(m.get('summary'))} | {cell(m.get('needs'))} | {ev.get('tests_pass_with_change')} | {cell('; '.join(caught))} |")
