#!/bin/sh
# tools/corpus_from_commit.sh <repo commit> <PROP> [tier] -- run a check against an OLD commit of /repo (exported to
# /var/tmp) and copy the replay cases of the violations it reports there into corpus/<PROP>/ (regression corpus of
# fixed findings). Prints the VIOLATION lines.
set -e
C="$1"; P="$2"; T="${3:-quick}"
D=/var/tmp/old_$$
rm -rf "$D"; mkdir -p "$D"
git -C /repo archive "$C" | tar -x -C "$D"
cd /verif
rm -rf scratch/replays_alt/"$P"
VERIF_REPO="$D" VERIF_NO_EVIDENCE=1 ./run "$P" "$T" | grep -v condarc | cut -c1-300 || true
mkdir -p corpus/"$P"
for f in scratch/replays_alt/"$P"/*.json; do [ -f "$f" ] && cp "$f" corpus/"$P"/ ; done
rm -rf "$D"
ls corpus/"$P" | wc -l
