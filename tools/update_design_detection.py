#!/venv/bin/python
"""Regenerates the seeded-defect table in DESIGN.md between the SEEDED-TABLE markers."""
import os, subprocess
V = os.path.dirname(os.path.dirname(os.path.abspath(__file__)))
t = subprocess.run(["/venv/bin/python", os.path.join(V, "tools", "seeded_table.py")], capture_output=True, text=True).stdout
t = "\n".join(l for l in t.splitlines() if l.startswith("|"))
p = os.path.join(V, "DESIGN.md"); s = open(p).read()
a = s.index("<!-- SEEDED-TABLE-BEGIN -->") + len("<!-- SEEDED-TABLE-BEGIN -->"); b = s.index("<!-- SEEDED-TABLE-END -->")
open(p, "w").write(s[:a] + "\n" + t + "\n" + s[b:])
print("table rows:", t.count("\n") - 1)
