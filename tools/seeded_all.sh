#!/bin/sh
# tools/seeded_all.sh <worktree> <PROP> [more props]: evaluate seeded/1..3 of a mutant agent's worktree, print one line each
WT="$1"; shift
for k in 1 2 3; do
  [ -d "$WT/seeded/$k" ] || continue
  /venv/bin/python /verif/tools/seeded_eval.py "$WT/seeded/$k" "$@" 2>&1 | grep -v condarc | /venv/bin/python -c "
import json,sys; r=json.load(sys.stdin); print('$k', 'tests', r.get('tests_pass'), 'demo clean/mutant', r.get('demo_clean_exit'), r.get('demo_mutant_exit'), {k:(v['exit'],v['violations'],[x.split('key=')[1][:110] for x in v['first'][:2]], v['err'][-100:]) for k,v in r.get('checks',{}).items()})"
done
