#!/bin/sh
# tools/mutcopy.sh <seeded name> : make /var/tmp/mut_<name> = /repo + seeded/<name>/patch.diff (remove it yourself afterwards)
V="$(cd "$(dirname "$0")/.." && pwd)"
D=/var/tmp/mut_$1
rm -rf "$D"; mkdir -p "$D"
(cd /repo && tar --exclude=.git --exclude=__pycache__ --exclude='*.egg-info' -cf - .) | (cd "$D" && tar xf -)
(cd "$D" && patch -p1 -s --no-backup-if-mismatch -i "$V/seeded/$1/patch.diff") && echo "$D"
